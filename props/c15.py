"""C15 - asynchronous results: one final outcome, callbacks once, timeouts exact."""
from hypothesis import strategies as st

from vlib import simkernel as sk
from vlib import refcodec as rc
from vlib.refpeer import RawPeer, box_value
from vlib.hyp import drive
from vlib.pair import Pair
from vlib.runner import Failure

ID = "C15"
LEVEL = "exploration"
RULE = ("case = timed event list in VIRTUAL time over a real connection with a scripted peer: a request with timeout in "
        "{None, 0, negative, small, equal to the reply time, reply time +- epsilon}, a reply (value or exception) at a virtual "
        "time or never, and a list of (delay, operation) with operations add_callback / ready / error / expired / value / "
        "wait / poll; optional unrelated incoming request whose handler consumes virtual time; the same through "
        "sync_request with a configured timeout and through timed() wrappers created some time before they are called. "
        "oracle = reference state machine written from the statement (pending -> ready | expired, final; arrival = the "
        "moment the reply is dispatched at the requester): every query result, the virtual time at which wait/value returns "
        "or raises (timeout exactly at the expiry instant, value at arrival), callback log (each registered callback exactly "
        "once, registration order, immediate after readiness, none after expiry-first), late replies change nothing; ties "
        "accept either outcome but it must stay final. non-trivial = reply and expiry within epsilon, a late reply after "
        "expiry, or callbacks on both sides of readiness. distinct by event-list hash.")
ASSUMPTIONS = ["virtual clock: time moves only when every thread is blocked, so 'at the expiry instant' is exact",
               "negative timeouts are only subject to the universal clauses (the statement does not define them)"]

EPS = 0.001


def run_events(case):
    """returns (observations, problems) ; observations = list per op of [op, t_before, t_after, result]"""
    import rpyc
    from rpyc.core import consts
    from rpyc.core.channel import Channel
    from rpyc.core.async_ import AsyncResultTimeout
    k = sk.Kernel(max_time=500.0)
    obs = []
    cblog = []
    problems = []
    with k.installed():
        link = sk.Link(k)

        class Busy(rpyc.Service):
            def exposed_work(self, d):
                k.sleep(d)
                return d
        cfg = {}
        if case.get("sync_cfg") is not None:
            cfg["sync_request_timeout"] = case["sync_cfg"]
        conn = Busy()._connect(Channel(link.a), cfg)
        peer = RawPeer(link.b, strict=False)
        reply = case["reply"]          # None | [t, "value"|"exc"]
        busy = case.get("busy")        # None | [t, duration]

        def peer_task():
            m = peer.recv_msg()
            seq = m[1]
            events = []
            if reply is not None:
                events.append((reply[0], "reply"))
            if busy is not None:
                events.append((busy[0], "busy"))
            events.sort()
            t = 0.0
            for at, what in events:
                if at > t:
                    k.sleep(at - t)
                    t = at
                if what == "reply":
                    if reply[1] == "value":
                        peer.reply(seq, box_value("the-value"))
                    else:
                        peer.exception(seq, (("builtins", "KeyError"), ("the-error",), (), "tb"))
                else:
                    # an unrelated request whose handler consumes virtual time at the requester
                    peer.send_msg(rc.MSG_REQUEST, 555, (rc.HANDLERS["CALLATTR"],
                                                         (rc.LABEL_TUPLE, ((rc.LABEL_LOCAL_REF, root_id[0]), (rc.LABEL_VALUE, "work"),
                                                                           (rc.LABEL_VALUE, (busy[1],)), (rc.LABEL_VALUE, ())))))
            while True:
                peer.recv_msg()

        root_id = [None]

        def driver():
            from rpyc.lib import get_id_pack
            root_id[0] = get_id_pack(conn._local_root)
            conn._local_objects.add(root_id[0], conn._local_root)
            t0 = k.now
            if case.get("sync_cfg") is not None:
                # a synchronous request = an asynchronous one carrying the configured timeout
                tb = k.now
                try:
                    v = conn.sync_request(consts.HANDLE_PING, "tok")
                    r = ["value", v]
                except AsyncResultTimeout:
                    r = ["timeout"]
                except KeyError as ex:
                    r = ["exc", ex.args[0]]
                obs.append(["sync", tb, k.now, r])
                return
            res = conn.async_request(consts.HANDLE_PING, "tok", timeout=case["timeout"])
            ncb = [0]
            for dt, op in case["ops"]:
                if dt:
                    k.sleep(dt)
                tb = k.now
                if op == "add_callback":
                    i = ncb[0]
                    ncb[0] += 1
                    res.add_callback(lambda r_, i=i: cblog.append([i, k.now, r_ is res]))
                    r = i
                elif op in ("ready", "error", "expired"):
                    r = bool(getattr(res, op))
                elif op in ("value", "wait"):
                    try:
                        if op == "value":
                            r = ["value", res.value]
                        else:
                            res.wait()
                            r = ["returned"]
                    except AsyncResultTimeout:
                        r = ["timeout"]
                    except KeyError as ex:
                        r = ["exc", ex.args[0]]
                elif op == "poll":
                    r = bool(conn.poll_all(0))
                else:
                    raise ValueError(op)
                obs.append([op, tb - t0, k.now - t0, r])
        k.spawn(peer_task, name="peer", daemon=True)
        t = k.spawn(driver, name="driver")
        k.run()
        if t.exc is not None:
            problems.append(("driver-raised", type(t.exc).__name__, t.exc_tb[-300:]))
        if k.deadlock:
            problems.append(("hang", "operation never returned", k.deadlock))
        conn._closed = True
    return obs, cblog, problems


def model(case):
    """reference state machine; returns expected observations as a list of alternatives per op"""
    timeout = case["timeout"]
    finite = timeout is not None and timeout >= 0
    E = timeout if finite else None
    reply = case["reply"]
    busy = case.get("busy")
    Tr = reply[0] if reply else None
    phase = "pending"
    dispatched_at = None
    avail_taken = False
    busy_taken = busy is None
    cbs = []           # registered, not yet run
    cb_expected = []   # [index, time]
    now = 0.0
    exp = []
    final_val = ["value", "the-value"] if reply and reply[1] == "value" else (["exc", "the-error"] if reply else None)
    ambiguous = False

    def inbox(t):
        """packets available and undispatched at time t, in arrival order"""
        q = []
        if busy is not None and not busy_taken and busy[0] <= t:
            q.append((busy[0], "busy"))
        if Tr is not None and not avail_taken and Tr <= t:
            q.append((Tr, "reply"))
        q.sort()
        return q

    def dispatch_reply(t):
        nonlocal phase, dispatched_at, avail_taken
        avail_taken = True
        if phase == "pending" and not (finite and t >= E):
            phase = "ready"
            dispatched_at = t
            for i in cbs:
                cb_expected.append([i, t])
            del cbs[:]
        elif phase == "pending":
            phase = "expired"

    ncb = 0
    for dt, op in case["ops"]:
        now += dt
        if (Tr is not None and abs(now - Tr) < 1e-9) or (busy is not None and abs(now - busy[0]) < 1e-9):
            ambiguous = True         # an operation at the very instant a packet arrives: order is scheduler-defined
        clock_expired = finite and now >= E
        if phase == "pending" and clock_expired:
            phase = "expired"
        if op == "add_callback":
            if phase == "ready":
                cb_expected.append([ncb, now])
            else:
                cbs.append(ncb)
            exp.append([op, now, now, ncb])
            ncb += 1
        elif op == "expired":
            exp.append([op, now, now, phase == "expired"])
        elif op in ("ready", "error", "poll"):
            served = False
            if op == "poll" or phase == "pending":
                q = inbox(now)
                if q:
                    served = True
                    if q[0][1] == "busy":
                        busy_taken = True
                        now_after = now + busy[1]
                        # a request handler that takes time: everything after shifts; keep the model simple: flag it
                        ambiguous = True
                        now = now_after
                    else:
                        dispatch_reply(now)
            if op == "poll":
                exp.append([op, None, now, served])
            elif op == "ready":
                exp.append([op, None, now, phase == "ready"])
            else:
                exp.append([op, None, now, phase == "ready" and reply[1] == "exc"])
        elif op in ("value", "wait"):
            start = now
            if phase == "pending":
                # serve until ready or expired
                while phase == "pending":
                    q = inbox(now)
                    if q:
                        if q[0][1] == "busy":
                            busy_taken = True
                            now += busy[1]          # busy serving: the expiry may pass meanwhile
                            if finite and now >= E and phase == "pending":
                                # reply may have become available while busy; serve() loop ends on expiry check
                                phase = "expired"
                        else:
                            dispatch_reply(now)
                        continue
                    nxt = [x for x in ((Tr if not avail_taken else None), (busy[0] if not busy_taken else None),
                                       (E if finite else None)) if x is not None and x > now or (x is not None and x == E and finite)]
                    nxt = [x for x in nxt if x >= now]
                    if not nxt:
                        return None          # would block forever: generator avoids this
                    t_next = min(nxt)
                    if finite and t_next == E and ((Tr == E and not avail_taken)):
                        ambiguous = True     # reply exactly at the expiry instant: either outcome
                    now = t_next
                    if finite and now >= E and not inbox(now):
                        phase = "expired"
                    elif finite and now >= E:
                        # something arrived exactly at expiry: tie
                        ambiguous = True
                        phase = "expired"
            if phase == "ready":
                r = list(final_val) if op == "value" else (["returned"] if reply[1] == "value" or op == "wait" else None)
                if op == "wait":
                    r = ["returned"]
            else:
                r = ["timeout"]
            exp.append([op, start, now, r])
    return {"obs": exp, "callbacks": cb_expected, "ambiguous": ambiguous, "phase": phase}


def check_events(case, rec):
    m = model(case)
    if m is None:
        rec.count("skipped: would block forever")
        return []
    timeout = case["timeout"]
    reply = case["reply"]
    finite = timeout is not None and timeout >= 0
    near = finite and reply is not None and abs(reply[0] - timeout) <= 2 * EPS
    late = finite and reply is not None and reply[0] > timeout
    ops = [o[1] for o in case["ops"]]
    nontrivial = near or late or ops.count("add_callback") >= 2
    classes = ["timeout:%s" % ("none" if timeout is None else ("negative" if timeout < 0 else ("zero" if timeout == 0 else "finite"))),
               "reply:%s" % ("never" if reply is None else reply[1])] + ["op:" + o for o in set(ops)]
    if near:
        classes.append("reply-within-eps-of-expiry")
    if late:
        classes.append("late-reply-after-expiry")
    if case.get("busy"):
        classes.append("busy-serving")
    rec.case(case, nontrivial, classes)
    obs, cblog, problems = run_events(case)
    fails = [Failure(cl, key, case, det) for cl, key, det in problems]
    if problems:
        return fails
    neg = timeout is not None and timeout < 0
    # universal clauses (always checked): finality and callbacks
    seen_final = None
    for op, tb, ta, r in obs:
        if op in ("value", "wait") and r and r[0] in ("value", "exc", "returned", "timeout"):
            kind = "timeout" if r[0] == "timeout" else "ready"
            if seen_final is not None and seen_final != kind:
                fails.append(Failure("finality", "outcome changed from %s to %s" % (seen_final, kind), case, obs))
                break
            seen_final = kind
    idx = [c[0] for c in cblog]
    if len(idx) != len(set(idx)):
        fails.append(Failure("callbacks", "a callback ran more than once", case, cblog))
    if any(not c[2] for c in cblog):
        fails.append(Failure("callbacks", "callback did not receive its AsyncResult", case, cblog))
    rec.count("exact-comparison" if not (m["ambiguous"] or neg or case.get("busy")) else "universal-clauses-only")
    if m["ambiguous"] or neg or case.get("busy"):
        # ties, undefined negative timeouts and handler-time shifts: only the universal clauses + callback sanity
        if seen_final == "timeout" and cblog and not any(o[0] in ("ready", "poll", "error") for o in obs):
            fails.append(Failure("callbacks", "callbacks ran although the expiry came first", case, cblog))
        return fails[:3]
    exp = m["obs"]
    for (op, tb, ta, r), (eop, etb, eta, er) in zip(obs, exp):
        if r != er:
            what = "%s gave %s, statement says %s" % (op, _short(r), _short(er))
            fails.append(Failure("query-result", what, case, [op, tb, ta, r], [eop, etb, eta, er]))
            break
        if abs(ta - eta) > 1e-6:
            early = ta < eta
            fails.append(Failure("timing", "%s %s %s" % (op, _short(r), "earlier than the statement allows" if early else "later than the statement allows"),
                                 case, [op, tb, ta, r], [eop, etb, eta, er]))
            break
    want_cb = [[i, t] for i, t in m["callbacks"]]
    got_cb = [[c[0], c[1]] for c in cblog]
    if [c[0] for c in got_cb] != [c[0] for c in want_cb]:
        fails.append(Failure("callbacks", "ran %s, statement says %s" % ([c[0] for c in got_cb], [c[0] for c in want_cb]), case,
                             got_cb, want_cb))
    return fails[:3]


def _short(r):
    if isinstance(r, list):
        return r[0]
    return str(r)


# ---- sync_request with a configured timeout, and timed() --------------------------------------------------------------
def check_sync(case, rec):
    cfg = case["sync_cfg"]
    reply = case["reply"]
    rec.case(case, reply is not None and abs(reply[0] - cfg) <= 2 * EPS or reply is None,
             ["sync", "reply:%s" % ("never" if reply is None else reply[1])])
    obs, cblog, problems = run_events(case)
    fails = [Failure(cl, key, case, det) for cl, key, det in problems]
    if problems:
        return fails
    op, tb, ta, r = obs[0]
    if reply is not None and reply[0] < cfg - 1e-9:
        want = (["value", "tok"] if False else (["value", "the-value"] if reply[1] == "value" else ["exc", "the-error"]), reply[0])
    elif reply is not None and abs(reply[0] - cfg) <= 1e-9:
        return fails
    else:
        want = (["timeout"], cfg)
    if r != want[0]:
        fails.append(Failure("sync-timeout", "synchronous request %s, statement says %s" % (_short(r), _short(want[0])), case, obs, want))
    elif abs(ta - want[1]) > 1e-6:
        fails.append(Failure("sync-timeout", "synchronous request finished at the wrong instant", case, ta, want[1]))
    return fails


def check_timed(case, rec):
    import rpyc
    from rpyc.core.async_ import AsyncResultTimeout
    T, age, d = case["T"], case["age"], case["d"]
    rec.case(case, abs(d - T) <= 2 * EPS or age > 0, ["timed", "age:%s" % ("0" if not age else ">0")])
    out = {}
    fails = []
    kern = {}

    class Slow(rpyc.Service):
        def exposed_slow(self, dur):
            kern["k"].sleep(dur)
            return dur
    with Pair(rpyc.VoidService, Slow()) as p:
        kern["k"] = p.k

        def driver():
            f = rpyc.timed(p.a.root.slow, T)
            if age:
                p.k.sleep(age)
            calls = []
            for i in range(case["calls"]):
                t0 = p.k.now
                res = f(d)
                try:
                    v = res.value
                    calls.append(["value", p.k.now - t0])
                except AsyncResultTimeout:
                    calls.append(["timeout", p.k.now - t0])
                if calls[-1][0] == "timeout":
                    p.k.sleep(d + 1)     # let the late reply arrive and be discarded
                    p.a.poll_all(0)
            out["calls"] = calls
        t = p.run(driver)
        if t.exc is not None:
            fails.append(Failure("driver-raised", type(t.exc).__name__, case, t.exc_tb[-300:]))
    for c in out.get("calls", []):
        if abs(d - T) <= 1e-9:
            continue
        want = ["value", d] if d < T else ["timeout", T]
        if c[0] != want[0]:
            fails.append(Failure("timed", "call %s, statement says %s" % (c[0], want[0]), case, c, want))
            break
        if abs(c[1] - want[1]) > 1e-6:
            fails.append(Failure("timed", "%s at the wrong instant" % c[0], case, c, want))
            break
    return fails


# ---- expiry while ANOTHER thread holds the receive lock ---------------------------------------------------------------
def check_held(case, rec):
    import rpyc
    from rpyc.core import consts
    from rpyc.core.channel import Channel
    from rpyc.core.async_ import AsyncResultTimeout
    T, S, reply = case["T"], case["S"], case["reply"]
    rec.case(case, reply is None or abs(reply - T) <= 2 * EPS or reply > T, ["held-lock", "reply:%s" % ("never" if reply is None else "at-%s" %
                                                                                                ("<T" if reply < T else ">T"))])
    k = sk.Kernel(max_time=500.0)
    out = {}
    fails = []
    with k.installed():
        link = sk.Link(k)
        conn = rpyc.VoidService()._connect(Channel(link.a), {})
        peer = RawPeer(link.b, strict=False)
        stop = [False]

        def loop_server():
            try:
                while not stop[0]:
                    conn.serve(S)
            except EOFError:
                pass

        def peer_task():
            m = peer.recv_msg()
            if reply is not None:
                k.sleep(reply)
                peer.reply(m[1], box_value("the-value"))
            while True:
                peer.recv_msg()

        def driver():
            k.spawn(loop_server, name="loop-server", daemon=True)
            k.sleep(0.01)                  # the serving thread now sits in poll() holding the receive lock
            t0 = k.now
            res = conn.async_request(consts.HANDLE_PING, "tok", timeout=T)
            try:
                out["r"] = ["value", res.value]
            except AsyncResultTimeout:
                out["r"] = ["timeout"]
            out["dt"] = k.now - t0
            stop[0] = True
        k.spawn(peer_task, name="peer", daemon=True)
        t = k.spawn(driver, name="driver")
        k.run()
        if t.exc is not None:
            fails.append(Failure("driver-raised", type(t.exc).__name__, case, (t.exc_tb or "")[-300:]))
        elif k.deadlock:
            fails.append(Failure("hang", "waiter never returned although its expiry passed", case, k.deadlock))
        else:
            if reply is not None and abs(reply - T) <= 1e-9:
                pass
            elif reply is not None and reply < T:
                if out["r"] != ["value", "the-value"] or abs(out["dt"] - reply) > 1e-6:
                    fails.append(Failure("held-lock", "value not delivered at arrival while another thread holds the receive lock", case,
                                         [out["r"], out["dt"]], ["value", reply]))
            else:
                if out["r"] != ["timeout"]:
                    fails.append(Failure("held-lock", "no timeout error although the expiry came first", case, [out["r"], out["dt"]]))
                elif abs(out["dt"] - T) > 1e-6:
                    fails.append(Failure("held-lock", "timeout %s than the expiry instant while another thread holds the receive lock" %
                                         ("earlier" if out["dt"] < T else "later"), case, out["dt"], T))
        conn._closed = True
    return fails


def held_cases():
    return st.fixed_dictionaries({"part": st.just("held"), "T": st.sampled_from([0.5, 1.0, 2.0]), "S": st.sampled_from([0.3, 1.0, 5.0, 30.0]),
                                  "reply": st.one_of(st.none(), st.sampled_from([0.1, 0.5 - EPS, 0.5 + EPS, 1.5, 3.0]))})


def event_cases():
    base = st.sampled_from([0.5, 1.0, 2.0])

    def build(T):
        timeout = st.sampled_from([None, 0, -1, T, T, T, T / 2.0])
        o = EPS / 3.0      # keeps replies off the instants at which operations happen (simultaneity is scheduler-defined)
        reply_t = st.sampled_from([T - EPS, T, T + EPS, T / 4.0 + o, T / 2.0 + o, 2 * T + o, o])
        reply = st.one_of(st.none(), st.tuples(reply_t, st.sampled_from(["value", "value", "exc"])).map(list))
        dts = st.sampled_from([0, 0, T / 4.0, T / 2.0, T - EPS, T, T + EPS, EPS])
        op = st.sampled_from(["add_callback", "add_callback", "ready", "error", "expired", "value", "wait", "poll"])
        ops = st.lists(st.tuples(dts, op).map(list), min_size=1, max_size=8)
        busy = st.one_of(st.none(), st.none(), st.tuples(st.sampled_from([T / 4.0 + 2 * o, T / 2.0 + 2 * o]),
                                                         st.sampled_from([T / 4.0, T])).map(list))
        return st.fixed_dictionaries({"part": st.just("events"), "timeout": timeout, "reply": reply, "ops": ops, "busy": busy})
    return base.flatmap(build).filter(lambda c: model(c) is not None)


def sync_cases():
    T = st.sampled_from([0.5, 2.0, 30])
    return T.flatmap(lambda t: st.fixed_dictionaries({
        "part": st.just("sync"), "sync_cfg": st.just(t), "timeout": st.just(t), "ops": st.just([]), "busy": st.none(),
        "reply": st.one_of(st.none(), st.tuples(st.sampled_from([t - EPS, t + EPS, t / 2.0, 2 * t, EPS / 3.0]),
                                                st.sampled_from(["value", "exc"])).map(list))}))


def timed_cases():
    return st.fixed_dictionaries({"part": st.just("timed"), "T": st.sampled_from([0.5, 2.0]), "age": st.sampled_from([0, 0.3, 1.0, 5.0]),
                                  "d": st.sampled_from([0.1, 0.5 - EPS, 0.5 + EPS, 1.0, 2.0 - EPS, 2.0 + EPS, 3.0]),
                                  "calls": st.integers(1, 2)})


# ---- fire and forget: the requester keeps no reference to the result, only its callbacks -----------------------------------
def check_forgotten(case, rec):
    import gc
    import rpyc
    from rpyc.core import consts
    from rpyc.core.channel import Channel
    rec.case(case, True, ["forgotten-result", "reply:" + case["kind"], "callbacks:%d" % case["ncb"],
                          "timeout:%s" % ("none" if case["timeout"] is None else "finite")])
    k = sk.Kernel(max_time=500.0)
    cblog = []
    problems = []
    with k.installed():
        link = sk.Link(k)
        conn = rpyc.VoidService()._connect(Channel(link.a), {})
        peer = RawPeer(link.b, strict=False)

        def peer_task():
            m = peer.recv_msg()
            k.sleep(case["at"])
            if case["kind"] == "value":
                peer.reply(m[1], box_value("the-value"))
            else:
                peer.exception(m[1], (("builtins", "KeyError"), ("the-error",), (), "tb"))
            while True:
                peer.recv_msg()

        def driver():
            res = conn.async_request(consts.HANDLE_PING, "tok", timeout=case["timeout"])
            for i in range(case["ncb"]):
                res.add_callback(lambda r_, i=i: cblog.append([i, k.now, bool(r_.ready), bool(r_.error)]))
            del res
            gc.collect()
            k.sleep(case["at"] + 0.5)
            conn.poll_all(0)
        k.spawn(peer_task, name="peer", daemon=True)
        t = k.spawn(driver, name="driver")
        k.run()
        if t.exc is not None:
            problems.append(Failure("driver-raised", type(t.exc).__name__, case, t.exc_tb[-300:]))
        conn._closed = True
    want = [[i, True, case["kind"] == "exc"] for i in range(case["ncb"])]
    got = [[c[0], c[2], c[3]] for c in cblog]
    if not problems and got != want:
        problems.append(Failure("callbacks", "ran %s, statement says %s (result not retained by the requester)" %
                                ([c[0] for c in cblog], list(range(case["ncb"]))), case, cblog))
    return problems


def forgotten_cases():
    return st.fixed_dictionaries({"part": st.just("forgotten"), "kind": st.sampled_from(["value", "exc"]), "ncb": st.integers(1, 3),
                                  "at": st.sampled_from([0.0, 0.1, 1.0, 5.0]), "timeout": st.sampled_from([None, None, 30, 100])})


def plan(tier, scale):
    if tier == "quick":
        ne, ns, nt, sh = 300, 60, 60, 8
    else:
        ne, ns, nt, sh = 12000, 1000, 1000, 12
    return ([{"part": "events", "n": int(ne * scale)} for _ in range(sh)] + [{"part": "sync", "n": int(ns * scale)}]
            + [{"part": "timed", "n": int(nt * scale)}] + [{"part": "held", "n": int(nt * scale)}]
            + [{"part": "forgotten", "n": int(nt * scale)}])


def run_shard(desc, seed, rec, tier):
    if desc["part"] == "events":
        drive(rec, event_cases(), lambda c: check_events(c, rec), desc["n"], seed)
    elif desc["part"] == "held":
        drive(rec, held_cases(), lambda c: check_held(c, rec), desc["n"], seed)
    elif desc["part"] == "sync":
        drive(rec, sync_cases(), lambda c: check_sync(c, rec), desc["n"], seed)
    elif desc["part"] == "forgotten":
        drive(rec, forgotten_cases(), lambda c: check_forgotten(c, rec), desc["n"], seed)
    else:
        drive(rec, timed_cases(), lambda c: check_timed(c, rec), desc["n"], seed)


def replay(case, rec):
    return {"events": check_events, "sync": check_sync, "timed": check_timed, "held": check_held,
            "forgotten": check_forgotten}[case["part"]](case, rec)
