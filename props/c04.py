"""C04 - the value serializer is lossless and exact about what it accepts (rpyc/core/brine.py)."""
import sys

from hypothesis import strategies as st

from vlib import vals, refcodec
from vlib.hyp import drive
from vlib.runner import Failure

ID = "C04"
LEVEL = "exploration"
RULE = ("encode side: value specs constructed per wire length-class (immutables ∪ non-dumpables buried in containers); "
        "oracle = dumpable ⇔ statement's plain(), dumpable ⇒ dump succeeds and load(dump(v)) is type-exact/bit-exact, "
        "not dumpable ⇒ dump raises TypeError (also with the interpreter's int->text digit limit changed at run time: 0 = "
        "unlimited, 640 … 9000, integers just below / at / above / twice the limit in force).  decode side: random bytes and mutations of valid encodings; oracle = "
        "load raises an Exception or returns a plain value, with an audit hook seeing no import/exec/open/pickle event. "
        "non-trivial = composite value, a length-class edge, non-finite or negative-zero float, rejection caused by a "
        "nested member; for decoding: result composite or rejection after a container/length tag. distinct by case hash.")
ASSUMPTIONS = ["'never executes anything' is observed through CPython audit events and sys.modules",
               "RecursionError/MemoryError on adversarial nesting count as 'raises an exception'"]

EDGE = {"bytes-len:0", "bytes-len:1", "bytes-len:2", "bytes-len:3", "bytes-len:4", "bytes-len:5", "bytes-len:256-2999",
        "bytes-len:3000+", "str-len:256-2999", "str-len:3000+", "tuple-len:0", "tuple-len:1", "tuple-len:2",
        "tuple-len:3", "tuple-len:4", "tuple-len:5", "tuple-len:256+", "float:nan", "float:inf", "float:zero-neg",
        "float:subnormal", "str:lone-surrogate", "str:astral", "int:long"}

# ---------------------------------------------------------------------------------------------------
_audit = {"on": False, "events": []}
_BAD_EVENTS = ("import", "exec", "compile", "open", "os.system", "os.exec", "os.posix_spawn", "os.fork",
               "subprocess.Popen", "socket.", "pickle.find_class", "marshal.loads", "ctypes.", "code.__new__",
               "builtins.input", "os.spawn", "os.startfile")


def _hook(event, args):
    if _audit["on"] and event.startswith(_BAD_EVENTS):
        _audit["events"].append(event)


_hook_installed = False
_TRIP = []        # (module, attr, original)


def _arm_tripwires():
    """deserialisers / evaluators that must never be reached from brine.load"""
    import pickle
    import marshal
    import builtins
    for mod, attr in ((pickle, "loads"), (pickle, "load"), (pickle, "Unpickler"), (marshal, "loads"),
                      (builtins, "eval"), (builtins, "exec"), (builtins, "__import__"), (builtins, "compile"),
                      (builtins, "open")):
        orig = getattr(mod, attr)

        def trip(*a, _n="%s.%s" % (mod.__name__, attr), _o=orig, **kw):
            if _audit["on"]:
                _audit["events"].append("call:" + _n)
            return _o(*a, **kw)
        _TRIP.append((mod, attr, orig))
        setattr(mod, attr, trip)


def _disarm_tripwires():
    while _TRIP:
        mod, attr, orig = _TRIP.pop()
        setattr(mod, attr, orig)


def _install_hook():
    global _hook_installed
    if not _hook_installed:
        sys.addaudithook(_hook)
        _hook_installed = True


def plan(tier, scale):
    if tier == "quick":
        n_enc, n_dec, sh = 2500, 3000, 6
    else:
        n_enc, n_dec, sh = 40000, 50000, 12
    out = [{"part": "encode", "n": int(n_enc * scale)} for _ in range(sh)]
    out += [{"part": "decode", "n": int(n_dec * scale)} for _ in range(sh)]
    out.append({"part": "alltags"})
    out.append({"part": "intlimit", "n": int((300 if tier == "quick" else 4000) * scale)})
    out += [{"part": "concurrent", "n": int((60 if tier == "quick" else 1500) * scale)} for _ in range(2 if tier == "quick" else 4)]
    if tier == "thorough":
        out += [{"part": "atheris", "runs": int(600000 * scale), "corpus": c} for c in ("empty", "seeded")]
    return out


# ---------------------------------------------------------------------------------------------------
def check_intlimit(case, rec):
    """the interpreter's int->text digit limit is a run-time setting: 'can render as text' means under the limit in force"""
    import sys
    old = sys.get_int_max_str_digits()
    try:
        sys.set_int_max_str_digits(case["limit"])
        fails = check_encode(case["spec"], rec, case)
    finally:
        sys.set_int_max_str_digits(old)
    return fails


def intlimit_cases():
    def mk(t):
        limit, rel, k, neg, shape = t
        nd = {"below": (limit or 5000) - 1, "at": limit or 5000, "above": (limit or 5000) + 1, "double": 2 * (limit or 5000)}[rel]
        spec = ["pow10", nd - 1, k, neg]
        if shape == "tuple":
            spec = ["tuple", [["int", "1"], spec]]
        elif shape == "frozenset":
            spec = ["fset", [spec]]
        return {"part": "intlimit", "limit": limit, "spec": spec}
    return st.tuples(st.sampled_from([0, 640, 641, 1000, 2500, 4300, 9000]), st.sampled_from(["below", "at", "above", "double"]),
                     st.integers(0, 9), st.booleans(), st.sampled_from(["bare", "tuple", "frozenset"])).map(mk)


def check_encode(spec, rec, case=None):
    from rpyc.core import brine
    case = case or {"part": "encode", "spec": spec}
    classes = vals.spec_classes(spec)
    if "limit" in case:
        classes.add("int-text-limit-changed-at-run-time:%d" % case["limit"])
    v = vals.build(spec)
    fails = []
    p = vals.plain(v)
    try:
        d = brine.dumpable(v)
    except Exception as ex:
        rec.case(case, True, classes)
        return [Failure("dumpable-raises", type(ex).__name__, case, repr(ex))]
    nontrivial = vals.is_composite(spec) or bool(classes & EDGE) or any(c.startswith("int-digits") for c in classes)
    if d is not p and d != p:
        fails.append(Failure("declared-set", "dumpable=%s plain=%s %s" % (d, p, spec[0]), case, d, p))
    if d:
        classes.add("enc:accept")
        try:
            b = brine.dump(v)
        except Exception as ex:
            fails.append(Failure("encode-raises", type(ex).__name__, case, repr(ex)[:200], "bytes"))
        else:
            if type(b) is not bytes:
                fails.append(Failure("encode-type", type(b).__name__, case))
            else:
                try:
                    r = brine.load(b)
                except Exception as ex:
                    fails.append(Failure("roundtrip-load-raises", type(ex).__name__, case, repr(ex)[:200]))
                else:
                    if not vals.same(r, v):
                        fails.append(Failure("roundtrip", _first_diff(r, v), case, vals.describe(r), vals.describe(v)))
    else:
        classes.add("enc:reject")
        if vals.is_composite(spec):
            classes.add("enc:reject-nested")
            nontrivial = True
        try:
            b = brine.dump(v)
        except TypeError:
            pass
        except Exception as ex:
            fails.append(Failure("reject-wrong-exception", type(ex).__name__, case, repr(ex)[:200], "TypeError"))
        else:
            fails.append(Failure("accepts-undumpable", spec[0] if spec[0] != "sub" else spec[1], case,
                                 b[:40].hex(), "TypeError"))
    rec.case(case, nontrivial, classes)
    return fails


def _first_diff(r, v):
    if type(r) is not type(v):
        return "type:%s-vs-%s" % (type(r).__name__, type(v).__name__)
    if type(v) in (tuple,) and len(r) == len(v):
        for x, y in zip(r, v):
            if not vals.same(x, y):
                return _first_diff(x, y)
    if type(v) is slice:
        for x, y in ((r.start, v.start), (r.stop, v.stop), (r.step, v.step)):
            if not vals.same(x, y):
                return "slice/" + _first_diff(x, y)
    return "value:%s" % type(v).__name__


CONTAINER_TAGS = set([0x08, 0x0e, 0x0f, 0x10, 0x11, 0x12, 0x13, 0x14, 0x15, 0x16, 0x17, 0x19, 0x1a])


def check_decode(data, rec, origin="bytes"):
    from rpyc.core import brine
    _install_hook()
    case = {"part": "decode", "hex": data.hex()}
    classes = {"dec-origin:" + origin}
    fails = []
    mods_before = len(sys.modules)
    _audit["events"] = []
    _audit["on"] = True
    _arm_tripwires()
    try:
        try:
            v = brine.load(data)
        finally:
            _audit["on"] = False
            _disarm_tripwires()
    except Exception as ex:
        classes.add("dec:raises:" + type(ex).__name__)
        nontrivial = len(data) >= 2 and data[0] in CONTAINER_TAGS
    except BaseException as ex:     # SystemExit, KeyboardInterrupt, GeneratorExit ...
        fails.append(Failure("decode-baseexception", type(ex).__name__, case, repr(ex)))
        nontrivial = True
    else:
        classes.add("dec:value")
        if not vals.plain(v):
            fails.append(Failure("decode-nonplain", type(v).__name__, case, repr(v)[:100]))
        nontrivial = type(v) in (tuple, frozenset, slice)
        if nontrivial:
            classes.add("dec:composite")
    if _audit["events"]:
        fails.append(Failure("decode-side-effect", _audit["events"][0], case, _audit["events"][:5]))
    if len(sys.modules) != mods_before:
        fails.append(Failure("decode-imports", "sys.modules grew", case))
    rec.case(case, nontrivial, classes)
    return fails


# ---- decode-side generators -------------------------------------------------------------------------
def _mutate(base, muts):
    b = bytearray(base)
    for kind, a, x in muts:
        if not b:
            b = bytearray([x])
            continue
        pos = a % len(b)
        if kind == 0:
            b[pos] ^= 1 << (x % 8)
        elif kind == 1:
            del b[pos:]
        elif kind == 2:
            b[pos] = x                     # tag / length substitution
        elif kind == 3:
            b.insert(pos, x)
        elif kind == 4:
            del b[pos]
        elif kind == 5:                    # splice: repeat a slice
            b[pos:pos] = b[pos:pos + (x % 9)]
        elif kind == 6:                    # overwrite with an interesting tag
            b[pos] = (0x08, 0x0f, 0x15, 0x17, 0x19, 0x1a, 0x14, 0x16, 0x0e, 0x1b, 0x18, 0x07, 0x09, 0x1c, 0xf0, 0xff)[x % 16]
    return bytes(b[:4096])


def decode_inputs():
    raw = st.binary(max_size=48).map(lambda b: ("random", b))
    tagged = st.tuples(st.sampled_from(sorted(CONTAINER_TAGS | {0x18, 0x1b})), st.binary(max_size=24)).map(
        lambda t: ("tagged", bytes([t[0]]) + t[1]))
    valid = vals.immutables(big=False, surrogates=True, max_leaves=8).map(lambda s: refcodec.dump(vals.build(s)))
    mut = st.tuples(valid, st.lists(st.tuples(st.integers(0, 6), st.integers(0, 4095), st.integers(0, 255)),
                                    min_size=0, max_size=4)).map(
        lambda t: ("mutated" if t[1] else "valid", _mutate(t[0], t[1])))
    anytag = st.tuples(st.integers(0, 255), st.binary(max_size=16)).map(lambda t: ("anytag", bytes([t[0]]) + t[1]))
    return st.one_of(raw, tagged, anytag, mut, mut)


def concurrent_cases():
    """2..6 values, one per thread; floats and complex numbers (fixed-width packing) over-represented"""
    fl = vals.float_hex().map(lambda h: ["float", h])
    cx = st.tuples(vals.float_hex(), vals.float_hex()).map(lambda t: ["complex", t[0], t[1]])
    one = st.one_of(cx, cx, fl, vals.immutables(big=False, max_leaves=6), st.tuples(cx, fl).map(lambda t: ["tuple", list(t)]))
    return st.lists(one, min_size=2, max_size=6).map(lambda xs: {"part": "concurrent", "specs": xs})


def check_concurrent(case, rec, rounds=400):
    """the encoding of a value does not depend on what other threads are encoding at the same moment: every dump() issued while
    other threads dump their own values must return the bytes the same call returns alone (and those must round-trip).
    The interpreter owns the schedule here (switch interval 1 us): a miss proves nothing, a mismatch is always real."""
    import threading
    from rpyc.core import brine
    values = [vals.build(sp) for sp in case["specs"]]
    alone = [brine.dump(v) for v in values]
    fails = []
    for v, b in zip(values, alone):
        if not vals.same(brine.load(b), v):
            fails.append(Failure("roundtrip", "sequential baseline", case))
    wrong = []
    start = threading.Barrier(len(values))

    def work(i):
        v, b = values[i], alone[i]
        start.wait()
        for _ in range(rounds):
            try:
                got = brine.dump(v)
            except Exception as ex:
                wrong.append((i, "raised %s" % type(ex).__name__))
                return
            if got != b:
                wrong.append((i, got.hex()[:80]))
                return
    old = sys.getswitchinterval()
    sys.setswitchinterval(1e-6)
    try:
        ts = [threading.Thread(target=work, args=(i,)) for i in range(len(values))]
        for t in ts:
            t.start()
        for t in ts:
            t.join()
    finally:
        sys.setswitchinterval(old)
    if wrong:
        i, got = wrong[0]
        fails.append(Failure("concurrent-encode", "a dump() issued while other threads were encoding returned other bytes than alone: " + case["specs"][i][0],
                             case, got, alone[i].hex()[:80]))
    kinds = set(sp[0] for sp in case["specs"])
    rec.case(case, len(kinds & {"float", "complex", "tuple"}) >= 1, ["concurrent:%d-threads" % len(values)] + ["concurrent:" + k for k in kinds])
    rec.count("concurrent dump() calls compared", rounds * len(values))
    return fails


def run_shard(desc, seed, rec, tier):
    if desc["part"] == "concurrent":
        drive(rec, concurrent_cases(), lambda c: check_concurrent(c, rec), desc["n"], seed)
    elif desc["part"] == "encode":
        huge = st.one_of(vals.huge_ints(), vals.huge_ints().map(lambda s: ["tuple", [["int", "1"], s]]))
        strat = st.one_of(vals.immutables(), vals.immutables(), vals.non_dumpables(), huge)
        drive(rec, strat, lambda spec: check_encode(spec, rec), desc["n"], seed)
    elif desc["part"] == "intlimit":
        drive(rec, intlimit_cases(), lambda c: check_intlimit(c, rec), desc["n"], seed)
    elif desc["part"] == "alltags":
        import hashlib
        for tag in range(256):
            for j in range(6):
                tail = hashlib.shake_256(b"%d/%d/%d" % (seed, tag, j)).digest((0, 1, 4, 9, 17, 40)[j])
                for f in rec.triage(check_decode(bytes([tag]) + tail, rec, "alltags")):
                    rec.violation(f)
    elif desc["part"] == "decode":
        drive(rec, decode_inputs(), lambda t: check_decode(t[1], rec, t[0]), desc["n"], seed)
    elif desc["part"] == "atheris":
        from vlib import fuzz
        fuzz.run_campaign(rec, "brine_load", desc["runs"], seed, desc["corpus"],
                          lambda data: check_decode(data, rec, "atheris-crash"))


def replay(case, rec):
    if case["part"] == "encode":
        return check_encode(case["spec"], rec)
    if case["part"] == "intlimit":
        return check_intlimit(case, rec)
    if case["part"] == "concurrent":
        return check_concurrent(case, rec, rounds=4000)
    return check_decode(bytes.fromhex(case["hex"]), rec, "replay")
