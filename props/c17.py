"""C17 - closing a server ends all its clients; departed clients leave nothing behind."""
import gc
import socket
import threading

from hypothesis import strategies as st

from vlib import servers
from vlib.hyp import drive
from vlib.runner import Failure

ID = "C17"
LEVEL = "exploration"
RULE = ("case = (server kind: threaded / thread-pool / one-shot / forking; TCP loopback or unix socket; history <= 15 steps of "
        "connect / call / graceful close / abrupt close (RST) by up to 5 clients, without authenticator / with one / with one that "
        "returns a new socket object for the descriptor (as TLS wrapping does), an audit point, then server.close() at a "
        "generated position - or, for the in-process threaded and pool servers, close() forced to run to completion between "
        "the listener handing out a late client's connection and the accept loop seeing it (a harness-side listener wrapper "
        "owns that schedule) - and a second close()). oracle: after close() a new connection attempt is refused, every client "
        "that was still connected gets EOFError on its next request well inside the bound (its own request timeout firing "
        "instead is the failure), each of their service instances' disconnect hook has run exactly once, the second close() "
        "raises nothing; at every audit point after clients have left, server.clients / fd_to_conn / the descriptors registered with the pool server's poll object (observed through a wrapper) hold nothing for them and "
        "the process's open descriptors equal baseline + listener + 2 per still-connected client; for the forking server also: n "
        "clients leave while child-exit notifications are held back (signal mask in the helper), the server is then notified once, "
        "and no exited child may remain in the process table; a one-shot server has "
        "exactly one on_connect, its start() returns when that client leaves, and it refuses afterwards. non-trivial = "
        "close() while >= 1 client is connected, or >= 2 departures (one abrupt) before an audit. distinct by history hash.")
ASSUMPTIONS = ["real sockets, OS-scheduled threads; 'eventually' conditions are awaited up to a 10 s bound and a miss is confirmed "
               "by re-running the history in isolation", "descriptor and table audits only for in-process servers (not forking)"]


def run_history(case):
    problems = []
    stats = {"connected_at_close": 0, "departures": 0, "abrupt": 0}
    gc.collect()
    baseline = servers.open_fds()
    fx = servers.Fixture(case["server"], case["transport"], case.get("auth", False) if case["server"] != "forking" else False)
    clients = {}
    inproc = case["server"] != "forking"
    try:
        def connect(slot):
            if slot in clients:
                return
            if case["server"] == "oneshot" and (clients or stats["departures"]):
                return
            try:
                c = fx.connect_good()
                tok = c.root.whoami()
                clients[slot] = (c, tok)
            except Exception as ex:
                problems.append(("client-failed", "connect: %s" % type(ex).__name__, str(ex)[:100]))

        def call(slot):
            if slot in clients:
                c, tok = clients[slot]
                try:
                    if c.root.whoami() != tok:
                        problems.append(("client-failed", "wrong instance", None))
                except Exception as ex:
                    problems.append(("client-failed", "call: %s" % type(ex).__name__, str(ex)[:100]))

        def leave(slot, abrupt):
            if slot not in clients:
                return
            c, tok = clients.pop(slot)
            stats["departures"] += 1
            try:
                if abrupt:
                    stats["abrupt"] += 1
                    servers.abrupt_close(c._channel.stream.sock)
                    c._closed = True
                else:
                    c.close()
            except Exception:
                pass
            del c

        helper_base = [fx.helper_fds() if not inproc else None]

        def audit(tag):
            if not inproc:
                # forking server: the parent process must not keep descriptors of clients it handed to children
                if fx.closed or helper_base[0] is None:
                    return
                if not servers.wait_until(lambda: (fx.helper_fds() or 0) <= helper_base[0], 5.0):
                    problems.append(("leftover", "forking parent keeps descriptors of clients it handed to children",
                                     [fx.helper_fds(), helper_base[0], tag]))
                return
            srv = fx.server
            want_fds = len(baseline) + (0 if fx.closed or (case["server"] == "oneshot" and stats["departures"]) else 1) + 2 * len(clients)

            def nclients():
                # socket objects the server still tracks (an object that a wrapping authenticator left detached is no socket)
                return sum(1 for s_ in list(srv.clients) if s_.fileno() != -1)

            def settled():
                gc.collect()
                tables = nclients() <= len(clients) and len(srv.clients) <= 2 * len(clients) and (not hasattr(srv, "fd_to_conn") or len(srv.fd_to_conn) <= len(clients))
                if fx.pollspy is not None and not fx.closed and fx.pollspy.registered - set(srv.fd_to_conn):
                    return False
                return tables and len(servers.open_fds()) <= want_fds
            ok = servers.wait_until(settled)
            if not ok:
                gc.collect()
                fds = servers.open_fds()
                if nclients() > len(clients) or len(srv.clients) > 2 * len(clients):
                    problems.append(("leftover", "server.clients still holds sockets of departed clients", [len(srv.clients), len(clients), tag]))
                elif hasattr(srv, "fd_to_conn") and len(srv.fd_to_conn) > len(clients):
                    problems.append(("leftover", "fd_to_conn still holds departed connections", [len(srv.fd_to_conn), len(clients), tag]))
                elif fx.pollspy is not None and not fx.closed and fx.pollspy.registered - set(srv.fd_to_conn):
                    problems.append(("leftover", "descriptors of departed clients are still registered with the server's poll object",
                                     [sorted(fx.pollspy.registered - set(srv.fd_to_conn)), tag]))
                else:
                    problems.append(("leftover", "descriptors of departed clients still open", [len(fds) - len(baseline), want_fds - len(baseline), tag]))
            elif len([e for e in fx.events if e[0] == "disconnect"]) > len([e for e in fx.events if e[0] == "connect"]):
                problems.append(("hook", "more disconnect hooks than connections", None))

        def close_server(during_accept=False):
            stats["connected_at_close"] = len(clients)
            if during_accept:
                # close() runs to completion between the listener handing out a connection and the accept loop seeing it
                stats["close_during_accept"] = 1
                try:
                    # connections are accepted in arrival order: once this throw-away client has been served, nothing that
                    # connected earlier (flash clients) is still waiting in the listener's queue
                    tmp = fx.connect_good()
                    tmp.root.whoami()
                    tmp.close()
                except Exception as ex:
                    problems.append(("client-failed", "connect: %s" % type(ex).__name__, str(ex)[:100]))
                    return
                held = fx.arm_close_during_accept()
                if not held.entered.wait(servers.BOUND):      # the accept loop is now waiting inside the wrapper
                    problems.append(("harness", "accept loop never came back to the listener", None))
                    return
                try:
                    late = fx.connect_good()
                except Exception:
                    late = None                                # somebody else's connection was handed out first
                    stats["late_refused"] = 1
                if not held.done.wait(servers.BOUND):
                    problems.append(("harness", "the held connection was never handed out", None))
                    return
                why = held.err
                if late is not None:
                    clients["late"] = (late, None)
            else:
                why = fx.close_server()
            fx.closed = True
            if why:
                problems.append(("close", "server.close(): %s" % why.split("(")[0], why))
                return
            if not servers.wait_until(fx.refuses, 3.0):
                problems.append(("still-listening", "a new connection is still accepted after close()", None))
            # every client that was connected must see end-of-stream promptly
            results = {}

            def probe(slot, c):
                import time
                t0 = time.time()
                try:
                    c.root.echo(1)
                    results[slot] = ("served", time.time() - t0)
                except EOFError:
                    results[slot] = ("EOFError", time.time() - t0)
                except Exception as ex:
                    results[slot] = (type(ex).__name__, time.time() - t0)
            ths = []
            for slot, (c, tok) in clients.items():
                t = threading.Thread(target=probe, args=(slot, c))
                t.daemon = True
                t.start()
                ths.append(t)
            for t in ths:
                t.join(servers.BOUND + 2)
            for slot, (c, tok) in clients.items():
                r = results.get(slot, ("no answer at all", None))
                if r[0] != "EOFError":
                    where = " [forking server: connection served by an already forked child]" if case["server"] == "forking" and r[0] == "served" else ""
                    problems.append(("client-not-terminated", "connected client got %s instead of end-of-stream after server.close()%s" % (r[0], where),
                                     {"slot": slot, "after_s": r[1]}))
            if inproc and case["server"] != "oneshot":
                toks = [tok for c, tok in clients.values() if tok is not None]
                if not servers.wait_until(lambda: len(fx.server.clients) == 0 and not getattr(fx.server, "fd_to_conn", None), 3.0):
                    problems.append(("leftover", "closed server still holds client sockets or connections",
                                     [len(fx.server.clients), len(getattr(fx.server, "fd_to_conn", ()))]))

                def hooks_done():
                    return all(sum(1 for e in fx.events if e == ("disconnect", t)) >= 1 for t in toks)
                if not servers.wait_until(hooks_done, 5.0):
                    problems.append(("hook", "disconnect hook of a terminated client did not run", None))
                for t in toks:
                    n = sum(1 for e in fx.events if e == ("disconnect", t))
                    if n > 1:
                        problems.append(("hook", "disconnect hook ran %d times" % n, t))
            why2 = fx.close_again()
            if why2:
                problems.append(("close-twice", "second close() raised", why2))
            for slot in list(clients):
                c, tok = clients.pop(slot)
                try:
                    c._closed = True
                    c._channel.close()
                except Exception:
                    pass

        for stp in case["steps"]:
            if problems or fx.closed:
                break
            op = stp[0]
            if op == "connect":
                connect(stp[1] % 5)
            elif op == "call":
                call(stp[1] % 5)
            elif op == "leave":
                leave(stp[1] % 5, stp[2])
            elif op == "flash" and case["server"] != "oneshot":
                # connect and reset at once, several times: the client may be gone before anybody looks at its socket
                for _ in range(6):
                    try:
                        s = fx.raw_socket(magic=False)
                        servers.abrupt_close(s)
                    except (socket.error, OSError):
                        pass
                stats["flash"] = stats.get("flash", 0) + 1
            elif op == "audit":
                audit("mid-history")
            elif op == "close":
                close_server()
            elif op == "close_during_accept":
                if inproc and case["server"] != "oneshot" and case["transport"] == "tcp":   # (a unix listener has no accept timeout)
                    close_server(during_accept=True)
                else:
                    close_server()
        if not problems and case["server"] == "oneshot" and not fx.closed and stats["departures"]:
            # the single client has left: start() must have returned and the server must refuse from now on
            if not servers.wait_until(lambda: not fx.thread.is_alive(), servers.BOUND):
                problems.append(("oneshot", "start() did not return after its client left", None))
            elif not servers.wait_until(fx.refuses, 3.0):
                problems.append(("oneshot", "one-shot server accepted a second connection", None))
            if sum(1 for e in fx.events if e[0] == "connect") != 1:
                problems.append(("oneshot", "on_connect count", [e for e in fx.events]))
        if not problems and not fx.closed and case["server"] != "oneshot":
            audit("end-of-history")
            close_server()
    finally:
        for c, tok in clients.values():
            try:
                c._closed = True
                c._channel.close()
            except Exception:
                pass
        fx.stop()
    return problems, stats


def run_coalesced(case):
    """forking server: n clients leave while child-exit notifications are held back, so that the server is told ONCE about
    n exited children; afterwards no exited child may remain in the process table"""
    problems = []
    stats = {"connected_at_close": 0, "departures": 0, "abrupt": 0, "coalesced": 0}
    fx = servers.Fixture("forking", case["transport"], False, gate_sigchld=True)
    conns = []
    try:
        for _ in case["leave"]:
            c = fx.connect_good()
            c.root.whoami()
            conns.append(c)
        n = len(conns)
        if not servers.wait_until(lambda: len(fx.helper_cmd("children") or ()) == n, 5.0):
            return [("harness", "forking helper does not have one child per client", fx.helper_cmd("children"))], stats
        for c, abrupt in zip(conns, case["leave"]):
            stats["departures"] += 1
            try:
                if abrupt:
                    stats["abrupt"] += 1
                    servers.abrupt_close(c._channel.stream.sock)
                    c._closed = True
                else:
                    c.close()
            except Exception:
                pass
        if not servers.wait_until(lambda: (fx.helper_cmd("children") or []).count("Z") == n, servers.BOUND):
            problems.append(("child-alive", "child process of a departed client did not exit", fx.helper_cmd("children")))
            return problems, stats
        stats["coalesced"] = n
        fx.helper_cmd("unblock")
        if not servers.wait_until(lambda: not fx.helper_cmd("children"), 5.0):
            problems.append(("leftover", "forking server leaves exited children of departed clients in the process table",
                             {"children": fx.helper_cmd("children"), "clients": n}))
        why = fx.accepting()
        if why:
            problems.append(("client-failed", "after the departures: " + why, None))
    except Exception as ex:
        problems.append(("client-failed", "connect: %s" % type(ex).__name__, str(ex)[:100]))
    finally:
        for c in conns:
            try:
                c._closed = True
                c._channel.close()
            except Exception:
                pass
        fx.stop()
    return problems, stats


def check(case, rec):
    run = run_coalesced if "leave" in case else run_history
    problems, stats = run(case)
    if problems:
        again, _ = run(case)        # liveness-type observations are confirmed in isolation
        if not again:
            rec.count("inconclusive: not reproduced in isolation")
            problems = []
        else:
            problems = again
    nontrivial = stats.get("close_during_accept") or stats["connected_at_close"] >= 1 or (stats["departures"] >= 2 and stats["abrupt"] >= 1) or stats.get("flash", 0) > 0
    if stats.get("coalesced"):
        nontrivial = True
    classes = ["server:" + case["server"], "transport:" + case["transport"], "connected-at-close:%d" % min(stats["connected_at_close"], 3),
               "abrupt-departures:%d" % min(stats["abrupt"], 2)]
    if stats.get("close_during_accept") and not stats.get("late_refused"):
        classes.append("close()-completes-between-listener-accept-and-accept-loop")
    if case.get("auth"):
        classes.append("authenticator:%s" % ("returns-a-new-socket-object" if case["auth"] == "detach" else "same-socket"))
    if stats.get("coalesced"):
        classes.append("children-exited-before-one-notification:%d" % stats["coalesced"])
    if stats.get("late_refused"):
        rec.count("inconclusive: another connection was handed out before the late client's")
    rec.case(case, nontrivial, classes)
    return [Failure(cl, key, case, det) for cl, key, det in problems[:3]]


def cases(kinds):
    slot = st.integers(0, 4)
    step = st.one_of(st.tuples(st.just("connect"), slot), st.tuples(st.just("connect"), slot), st.tuples(st.just("call"), slot),
                     st.tuples(st.just("leave"), slot, st.booleans()), st.tuples(st.just("audit"), st.just(0)),
                     st.tuples(st.just("flash"), st.just(0))).map(list)
    body = st.lists(step, min_size=1, max_size=12)
    constructed = st.tuples(st.lists(step, max_size=4), st.booleans(), st.lists(step, max_size=4)).map(
        lambda t: [["connect", 0], ["connect", 1], ["connect", 2]] + t[0] + [["leave", 0, t[1]], ["leave", 1, not t[1]], ["audit", 0]] + t[2])
    tail = st.sampled_from([[["close", 0]], [], [["audit", 0], ["close", 0]], [["close_during_accept", 0]]])
    hist = st.fixed_dictionaries({"server": st.sampled_from(kinds), "transport": st.sampled_from(["tcp", "tcp", "unix"]),
                                  "auth": st.sampled_from([False, False, True, "detach"]),
                                  "steps": st.tuples(st.one_of(body, constructed), tail).map(lambda t: t[0] + t[1])})
    if kinds == ["forking"]:
        coalesced = st.fixed_dictionaries({"server": st.just("forking"), "transport": st.sampled_from(["tcp", "unix"]),
                                           "leave": st.lists(st.booleans(), min_size=2, max_size=4)})
        return st.one_of(hist, hist, coalesced)
    return hist


def plan(tier, scale):
    if tier == "quick":
        return ([{"kinds": ["threaded"], "n": int(12 * scale)} for _ in range(3)] + [{"kinds": ["pool"], "n": int(12 * scale)} for _ in range(3)]
                + [{"kinds": ["oneshot"], "n": int(10 * scale)} for _ in range(2)] + [{"kinds": ["forking"], "n": int(8 * scale)} for _ in range(2)])
    return [{"kinds": [k_], "n": int(200 * scale)} for k_ in ("threaded", "pool", "oneshot", "forking") for _ in range(4)]


def run_shard(desc, seed, rec, tier):
    drive(rec, cases(desc["kinds"]), lambda c: check(c, rec), desc["n"], seed, shrink_budget=20)


def replay(case, rec):
    return check(case, rec)
