"""C09 - remote exceptions arrive as the same class with the same data, and safely."""
import builtins
import os
import sys
import tempfile

from hypothesis import strategies as st

from vlib import vals
from vlib.hyp import drive
from vlib.pair import Pair
from vlib.runner import Failure

ID = "C09"
LEVEL = "exploration"
RULE = ("case = (exception class, constructor arguments, extra public/private attributes, 2x2 sender switches, 2x2 receiver "
        "switches) raised inside a real request handler and caught at the real requester, for every BaseException "
        "subclass found in builtins at run time (per-class argument strategies: generic tuples mixing plain values with "
        "lists/objects, OSError errno forms, UnicodeError 5-tuples, SyntaxError details, ImportError name/path, "
        "StopIteration value, SystemExit code) and for custom classes (module already imported / importable but not yet "
        "imported / unknown); plus hostile payloads handed to the receiver in place of a genuine record. oracle from the "
        "statement: class, except-clause, args (non-plain -> repr), plain public data attributes, no private ones, "
        "traceback/version iff allowed, real custom class iff instantiate and (imported or import allowed), no __init__ "
        "canary, no import audit event unless allowed. non-trivial = non-empty args, extra attribute, non-default switch "
        "or custom class. distinct by (class, argument shape, switches).")
ASSUMPTIONS = ["both peers share one interpreter, so 'not yet imported at the receiver' is simulated by a class that names "
               "an importable, not-imported module", "imports are observed through CPython audit events and a module canary"]

BUILTIN_EXC = sorted(n for n, o in vars(builtins).items() if isinstance(o, type) and issubclass(o, BaseException)
                     and getattr(builtins, n).__name__ == n)
MODDIR = None
CANARY = {"imported": 0, "init": 0}
_audit = {"on": False, "imports": []}


def _hook(event, args):
    if _audit["on"] and event == "import":
        _audit["imports"].append(args[0])


_hooked = []


def setup_modules():
    """a temp dir on sys.path with an importable custom-exception module that rings canaries"""
    global MODDIR
    if MODDIR is None:
        MODDIR = tempfile.mkdtemp(prefix="verif_c09_")
        with open(os.path.join(MODDIR, "verif_c09_lazy.py"), "w") as f:
            f.write("import props.c09 as _h\n_h.CANARY['imported'] += 1\n\n"
                    "class Boom(Exception):\n    def __init__(self, *a):\n        _h.CANARY['init'] += 1\n"
                    "        Exception.__init__(self, *a)\n\n"
                    "class NotExc(object):\n    def __init__(self, *a):\n        _h.CANARY['init'] += 1\n")
        with open(os.path.join(MODDIR, "verif_c09_loaded.py"), "w") as f:
            f.write("import props.c09 as _h\n\nclass Boom(Exception):\n    def __init__(self, *a):\n"
                    "        _h.CANARY['init'] += 1\n        Exception.__init__(self, *a)\n")
        # a module that is loaded, whose attribute lookup imports a sub-module on demand (PEP 562 module __getattr__,
        # the way concurrent.futures hands out ProcessPoolExecutor)
        with open(os.path.join(MODDIR, "verif_c09_pkg.py"), "w") as f:
            f.write("def __getattr__(name):\n    if name == 'Late':\n        import verif_c09_pkg_sub\n"
                    "        return verif_c09_pkg_sub.Late\n    raise AttributeError(name)\n")
        with open(os.path.join(MODDIR, "verif_c09_pkg_sub.py"), "w") as f:
            f.write("import props.c09 as _h\n_h.CANARY['imported'] += 1\n\n"
                    "class Late(Exception):\n    def __init__(self, *a):\n        _h.CANARY['init'] += 1\n"
                    "        Exception.__init__(self, *a)\n")
        sys.path.insert(0, MODDIR)
    if not _hooked:
        sys.addaudithook(_hook)
        _hooked.append(1)
    import verif_c09_loaded  # noqa: F401
    import verif_c09_pkg  # noqa: F401
    sys.modules.pop("verif_c09_lazy", None)
    sys.modules.pop("verif_c09_pkg_sub", None)


def cleanup_modules():
    global MODDIR
    if MODDIR:
        import shutil
        shutil.rmtree(MODDIR, ignore_errors=True)


# ---- building the exception from a spec (done identically at the raiser and, for the oracle, locally) ----------
def arg_value(a):
    return vals.build(a)


def build_exc(spec):
    kind = spec["cls"]
    args = [arg_value(a) for a in spec["args"]]
    if kind.startswith("custom:"):
        mod = kind.split(":")[1]
        if mod == "loaded":
            import verif_c09_loaded
            cls = verif_c09_loaded.Boom
        elif mod == "shadow":
            # a custom class whose bare name equals a built-in exception's
            cls = type("KeyError", (Exception,), {"__module__": "verif_c09_nowhere"})
        else:
            # a class that *claims* to live in a module the receiver has not imported / does not have
            cls = type("Boom", (Exception,), {"__module__": "verif_c09_lazy" if mod == "lazy" else "verif_c09_nowhere"})
    else:
        cls = getattr(builtins, kind)
    kw = {}
    if spec.get("kw") and cls is ImportError:
        kw = {"name": "modname", "path": "/some/path"}
    try:
        e = cls(*args, **kw)
    except Exception:
        try:
            e = cls(*args[:1])
        except Exception:
            e = cls.__new__(cls)
    for name, a in spec.get("attrs", []):
        try:
            setattr(e, name, arg_value(a))
        except Exception:
            pass
    return e


def expected_args(e):
    return tuple(a if vals.plain(a) else repr(a) for a in e.args)


def public_data_attrs(e):
    out = {}
    for name in dir(e):
        if name == "args" or name.startswith("_") or name in ("with_traceback",):
            continue
        try:
            v = getattr(e, name)
        except Exception:
            continue
        if callable(v):
            continue
        out[name] = v
    return out


def check_remote(case, rec):
    import rpyc
    from rpyc.core import vinegar
    from rpyc import version as rversion
    setup_modules()
    spec = case["exc"]
    snd, rcv = case["snd"], case["rcv"]
    kind = spec["cls"]
    classes = ["cls:" + (kind if kind.startswith("custom:") else "builtin"), "snd:tb=%d,ver=%d" % tuple(snd),
               "rcv:inst=%d,imp=%d" % tuple(rcv), "nargs:%d" % len(spec["args"])]
    if any(not vals.plain(arg_value(a)) for a in spec["args"]):
        classes.append("args:non-plain")
    if spec.get("attrs"):
        classes.append("attrs:extra")
    _route = case.get("route") or [0, 0]
    if (_route[1] and kind != "KeyboardInterrupt") or (_route[0] and kind != "SystemExit"):
        classes.append("another-class-routed-locally" if kind not in ("KeyboardInterrupt", "SystemExit") else
                       "the-OTHER-of-KeyboardInterrupt/SystemExit-routed-locally")
    nontrivial = bool(spec["args"]) or bool(spec.get("attrs")) or snd != [1, 1] or rcv != [0, 0] or kind.startswith("custom:")
    key = dict(case)
    key["shape"] = [a[0] for a in spec["args"]]
    rec.case(case, nontrivial, classes)

    class Raiser(rpyc.Service):
        def exposed_boom(self):
            raise build_exc(spec)

    # the two "route locally" switches, set for the class that is NOT being raised ("every built-in exception class not
    # routed locally by configuration" must surface at the requester)
    route = case.get("route") or [0, 0]
    cfg_snd = {"include_local_traceback": bool(snd[0]), "include_local_version": bool(snd[1]),
               "propagate_KeyboardInterrupt_locally": bool(route[1]) and kind != "KeyboardInterrupt",
               "propagate_SystemExit_locally": bool(route[0]) and kind != "SystemExit"}

    cfg_rcv = {"instantiate_custom_exceptions": bool(rcv[0]), "import_custom_exceptions": bool(rcv[1])}
    CANARY["imported"] = CANARY["init"] = 0
    fails = []
    out = {}
    with Pair(rpyc.VoidService, Raiser(), cfg_rcv, cfg_snd) as p:
        def driver():
            root = p.a.root
            _audit["imports"] = []
            init_before = CANARY["init"]
            _audit["on"] = True
            try:
                try:
                    root.boom()
                    out["caught"] = None
                except BaseException as ex:            # noqa: B902 - we want everything
                    out["caught"] = ex
            finally:
                _audit["on"] = False
            out["init_during_receive"] = CANARY["init"] - init_before
            out["imports"] = list(_audit["imports"])
        t = p.run(driver)
        dl = p.k.deadlock
    sys.modules.pop("verif_c09_lazy", None)
    if t.exc is not None:
        return [Failure("harness", type(t.exc).__name__, case, t.exc_tb[-300:])]
    if dl:
        return [Failure("deadlock", "exception never surfaced", case, dl)]
    e = out["caught"]
    orig = build_exc(spec)
    init_noise = 1 if kind == "custom:loaded" else 0      # the raiser's own constructor call
    if e is None:
        return [Failure("no-exception", kind, case)]
    # ---- class
    if not kind.startswith("custom:"):
        cls = type(orig)          # e.g. OSError(2, ...) constructs a FileNotFoundError
        if not isinstance(e, cls) or type(e).__name__ != cls.__name__:
            fails.append(Failure("builtin-class", "%s-arrived-as-%s" % (kind, type(e).__name__) if not isinstance(e, (TypeError,))
                                 or kind == "TypeError" else "rebuild-raises:" + kind, case,
                                 "%s: %s" % (type(e).__name__, str(e)[:120]), kind))
            return fails
        try:
            try:
                raise e
            except cls:
                pass
        except BaseException:
            fails.append(Failure("builtin-class", "not-caught-by-except-clause:" + kind, case))
    else:
        mod = kind.split(":")[1]
        modname = {"loaded": "verif_c09_loaded", "lazy": "verif_c09_lazy", "nowhere": "verif_c09_nowhere",
                   "shadow": "verif_c09_nowhere"}[mod]
        cname = "KeyError" if mod == "shadow" else "Boom"
        real_expected = bool(rcv[0]) and (mod == "loaded" or (mod == "lazy" and bool(rcv[1])))
        is_generic = isinstance(e, vinegar.GenericException)
        if mod == "shadow" and isinstance(e, KeyError):
            fails.append(Failure("custom-class", "custom class arrived as the built-in of the same bare name", case,
                                 type(e).__name__))
        if real_expected:
            if is_generic or type(e).__module__ != modname or type(e).__name__ != "Boom":
                fails.append(Failure("custom-class", "real class expected (%s, inst=%d imp=%d)" % (mod, rcv[0], rcv[1]), case,
                                     "%s.%s" % (type(e).__module__, type(e).__name__)))
        else:
            if not is_generic or type(e).__name__ != "%s.%s" % (modname, cname):
                fails.append(Failure("custom-class", "generic stand-in expected (%s, inst=%d imp=%d)" % (mod, rcv[0], rcv[1]),
                                     case, "%s.%s generic=%s" % (type(e).__module__, type(e).__name__, is_generic)))
        import_expected = bool(rcv[1]) and mod in ("lazy", "nowhere", "shadow")
        imported = [m for m in out["imports"] if m.startswith("verif_c09")]
        if imported and not import_expected:
            fails.append(Failure("import", "module imported although import_custom_exceptions is off", case, imported))
        if CANARY["imported"] and not (bool(rcv[1]) and mod == "lazy"):
            fails.append(Failure("import", "canary module body ran", case, CANARY["imported"]))
    if out["init_during_receive"] - init_noise > 0:
        fails.append(Failure("constructor-ran", kind, case, out["init_during_receive"]))
    if [m for m in out["imports"] if not m.startswith("verif_c09")]:
        fails.append(Failure("import", "unrelated module imported while receiving", case, out["imports"][:3]))
    # ---- args
    want_args = expected_args(orig)
    if not (type(e.args) is tuple and len(e.args) == len(want_args)
            and all(vals.same(x, y) for x, y in zip(e.args, want_args))):
        fails.append(Failure("args", kind if not kind.startswith("custom") else "custom", case,
                             repr(e.args)[:150], repr(want_args)[:150]))
    # ---- attributes
    for name, v in sorted(public_data_attrs(orig).items()):
        if not vals.plain(v):
            continue
        try:
            got = getattr(e, name)
            ok = vals.same(got, v)
        except Exception as ex:
            got, ok = repr(ex), False
        if not ok:
            # could the rebuilt object hold it at all?
            try:
                probe = type(e).__new__(type(e))
                setattr(probe, name, v)
                holdable = vals.same(getattr(probe, name), v)
            except Exception:
                holdable = False
            if holdable:
                fails.append(Failure("public-attribute", name, case, vals.describe(got), vals.describe(v)))
    for name, _ in spec.get("attrs", []):
        if name.startswith("_") and hasattr(e, name):
            fails.append(Failure("private-attribute", "copied", case, name))
    # ---- traceback / version disclosure
    bare_stop = type(orig) is StopIteration and not orig.args
    suffix = " (argument-less StopIteration)" if bare_stop else ""
    tb = getattr(e, "_remote_tb", None)
    if snd[0]:
        if not (isinstance(tb, str) and "exposed_boom" in tb):
            fails.append(Failure("traceback", "missing although allowed" + suffix, case, str(tb)[:80]))
    elif isinstance(tb, str) and ("exposed_boom" in tb or "<traceback denied>" not in tb):
        fails.append(Failure("traceback", "disclosed although denied", case, str(tb)[:80]))
    ver = getattr(e, "_remote_version", None)
    if snd[1]:
        if ver != rversion.version_string:
            fails.append(Failure("version", "missing although allowed" + suffix, case, ver))
    elif ver is not None and ver != "<version denied>":
        fails.append(Failure("version", "disclosed although denied", case, ver))
    return fails


# ---- hostile payloads straight into the receiver -------------------------------------------------------------------
def check_payload(case, rec):
    from rpyc.core import vinegar
    setup_modules()
    raw = vals.build(case["raw"])
    rcv = case["rcv"]
    crafted = case.get("crafted", False)
    rec.case(case, crafted or vals.is_composite(case["raw"]), ["payload:%s" % ("record" if crafted else "value"),
                                                              "rcv:inst=%d,imp=%d" % tuple(rcv)])
    fails = []
    CANARY["imported"] = CANARY["init"] = 0
    before_mods = set(sys.modules)
    _audit["imports"] = []
    trip = {"n": 0}
    real_system = os.system
    os.system = lambda *a: trip.__setitem__("n", trip["n"] + 1)
    _audit["on"] = True
    try:
        try:
            r = vinegar.load(raw, import_custom_exceptions=bool(rcv[1]), instantiate_custom_exceptions=bool(rcv[0]),
                             instantiate_oldstyle_exceptions=False)
            outcome = "returned"
        except Exception:
            r, outcome = None, "raised"
        except BaseException as ex:
            r, outcome = ex, "base-exception"
    finally:
        _audit["on"] = False
        os.system = real_system
    if outcome == "base-exception":
        fails.append(Failure("payload", "load raised %s" % type(r).__name__, case))
    if outcome == "returned":
        ok = isinstance(r, BaseException) or isinstance(r, str) or (isinstance(r, type) and issubclass(r, BaseException))
        if not ok:
            fails.append(Failure("payload", "load returned a non-exception %s" % (type(r).__mro__[-2].__name__ if len(type(r).__mro__) > 1 else "object"), case))
    if CANARY["init"]:
        fails.append(Failure("constructor-ran", "hostile payload", case))
    if trip["n"]:
        fails.append(Failure("payload", "os.system reached", case))
    new_mods = [m for m in set(sys.modules) - before_mods]
    imports = list(_audit["imports"])
    if (imports or new_mods or CANARY["imported"]) and not rcv[1]:
        fails.append(Failure("import", "hostile payload imported a module with import_custom_exceptions off", case,
                             (imports + new_mods)[:3]))
    sys.modules.pop("verif_c09_lazy", None)
    sys.modules.pop("verif_c09_pkg_sub", None)
    return fails


# ---- generators -------------------------------------------------------------------------------------------------
_plain = vals.immutables(big=False, surrogates=False, max_leaves=3)
_nonplain = st.sampled_from([["list", []], ["list", [["int", "1"]]], ["dict", []], ["range"], ["set", []], ["bytearray", "61"],
                             ["sub", "strsub", ["str", "s"]], ["sub", "intenum", ["none"]], ["list", [["str", "q"]]]])
_argv = st.one_of(_plain, _plain, _nonplain)
SPECIAL_ARGS = {
    "UnicodeDecodeError": [["str", "utf8"], ["bytes", "ff61"], ["int", "0"], ["int", "1"], ["str", "bad byte"]],
    "UnicodeEncodeError": [["str", "ascii"], ["str", "xé"], ["int", "1"], ["int", "2"], ["str", "ordinal"]],
    "UnicodeTranslateError": [["str", "xé"], ["int", "1"], ["int", "2"], ["str", "why"]],
}
OS_FORMS = [[], [["int", "2"]], [["int", "2"], ["str", "No such file"]], [["int", "13"], ["str", "denied"], ["str", "/x/y"]],
            [["int", "13"], ["str", "denied"], ["str", "a"], ["int", "0"], ["str", "b"]], [["str", "just text"]]]
SYNTAX_FORMS = [[], [["str", "bad"]], [["str", "bad"], ["tuple", [["str", "f.py"], ["int", "3"], ["int", "7"], ["str", "x = ("]]]]]


def exc_specs():
    def for_class(name):
        cls = getattr(builtins, name)
        if name in SPECIAL_ARGS:
            args = st.just(SPECIAL_ARGS[name])
        elif issubclass(cls, OSError):
            args = st.one_of(st.sampled_from(OS_FORMS), st.lists(_argv, max_size=3))
        elif issubclass(cls, SyntaxError):
            args = st.sampled_from(SYNTAX_FORMS)
        elif name in ("BaseExceptionGroup", "ExceptionGroup"):
            args = st.just([["str", "group"], ["list", [["exc"]]]])
        else:
            args = st.lists(_argv, max_size=3)
        attrs = st.lists(st.tuples(st.sampled_from(["detail", "code2", "_secret", "_hidden", "payload"]),
                                   st.one_of(_plain, _nonplain)).map(list), max_size=2, unique_by=lambda t: t[0])
        return st.fixed_dictionaries({"cls": st.just(name), "args": args, "attrs": attrs, "kw": st.booleans()})
    builtin = st.one_of(st.sampled_from(BUILTIN_EXC), st.sampled_from(BUILTIN_EXC), st.sampled_from(BUILTIN_EXC),
                        st.sampled_from(["KeyboardInterrupt", "SystemExit"])).flatmap(for_class)
    custom = st.fixed_dictionaries({"cls": st.sampled_from(["custom:loaded", "custom:lazy", "custom:nowhere", "custom:shadow"]),
                                    "args": st.lists(_argv, max_size=2), "attrs": st.just([]), "kw": st.just(False)})
    return st.one_of(builtin, builtin, custom)


def remote_cases():
    sw = st.lists(st.integers(0, 1), min_size=2, max_size=2)
    return st.fixed_dictionaries({"part": st.just("remote"), "exc": exc_specs(), "snd": sw, "rcv": sw, "route": sw})


def payload_cases():
    names = st.sampled_from([["os", "system"], ["builtins", "open"], ["builtins", "eval"], ["builtins", "type"],
                             ["builtins", "object"], ["builtins", "KeyError"], ["builtins", "BaseException"],
                             ["verif_c09_lazy", "Boom"], ["verif_c09_lazy", "NotExc"], ["verif_c09_loaded", "Boom"],
                             ["verif_c09_nowhere", "X"], ["subprocess", "Popen"], ["builtins", "ExceptionGroup"],
                             ["verif_c09_pkg", "Late"], ["verif_c09_pkg", "Late"], ["verif_c09_pkg", "missing"]])
    attrname = st.sampled_from(["__class__", "__dict__", "__traceback__", "args", "_remote_tb", "with_traceback",
                                "__init__", "__cause__", "value", "errno", "x"])
    rec = st.tuples(names, st.lists(_plain, max_size=3), st.lists(st.tuples(attrname, _plain), max_size=3), _plain).map(
        lambda t: ["tuple", [["tuple", [["str", t[0][0]], ["str", t[0][1]]]], ["tuple", t[1]],
                             ["tuple", [["tuple", [["str", a], v]] for a, v in t[2]]], t[3]]])
    crafted = st.fixed_dictionaries({"part": st.just("payload"), "raw": rec, "crafted": st.just(True),
                                     "rcv": st.lists(st.integers(0, 1), min_size=2, max_size=2)})
    anyval = st.fixed_dictionaries({"part": st.just("payload"), "raw": vals.immutables(big=False, max_leaves=6),
                                    "crafted": st.just(False), "rcv": st.lists(st.integers(0, 1), min_size=2, max_size=2)})
    return st.one_of(crafted, crafted, anyval)


def plan(tier, scale):
    if tier == "quick":
        out = [{"part": "enum"}]
        out += [{"part": "remote", "n": int(110 * scale)} for _ in range(8)]
        out += [{"part": "payload", "n": int(400 * scale)} for _ in range(4)]
        return out
    out = [{"part": "enum"}]
    out += [{"part": "remote", "n": int(4000 * scale)} for _ in range(12)]
    out += [{"part": "payload", "n": int(15000 * scale)} for _ in range(4)]
    return out


def run_shard(desc, seed, rec, tier):
    try:
        if desc["part"] == "enum":
            # every builtin class once with a one-argument form, default switches (cheap and complete over the classes)
            for name in BUILTIN_EXC:
                args = SPECIAL_ARGS.get(name, [["str", "m"]])
                if name in ("BaseExceptionGroup", "ExceptionGroup"):
                    args = [["str", "group"], ["list", [["exc"]]]]
                case = {"part": "remote", "exc": {"cls": name, "args": args, "attrs": [], "kw": False},
                        "snd": [1, 1], "rcv": [0, 0]}
                for f in rec.triage(check_remote(case, rec)):
                    rec.violation(f)
        elif desc["part"] == "remote":
            drive(rec, remote_cases(), lambda c: check_remote(c, rec), desc["n"], seed)
        else:
            drive(rec, payload_cases(), lambda c: check_payload(c, rec), desc["n"], seed)
    finally:
        cleanup_modules()


def replay(case, rec):
    try:
        return check_remote(case, rec) if case["part"] == "remote" else check_payload(case, rec)
    finally:
        cleanup_modules()
