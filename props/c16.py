"""C16 - a server keeps serving good clients correctly whatever bad clients do."""
import hashlib
import socket
import struct
import threading
import zlib

from hypothesis import strategies as st

from vlib import refcodec as rc
from vlib import servers
from vlib.hyp import drive
from vlib.runner import Failure

ID = "C16"
LEVEL = "exploration"
RULE = ("case = (server kind: threaded / thread-pool of 4 / forking; transport: TCP loopback or unix socket; authenticator: none "
        "or magic word; scenario: <= 12 steps interleaving well-behaved clients (connect, per-connection token, private "
        "state, a reference, graceful or abrupt leave) with hostile clients built from a grammar of byte-level actions: random "
        "bytes, valid frame + garbage, absurd / zero / off-by-one length fields, compression flag with corrupt zlib data, "
        "well-framed junk, well-formed non-messages, a valid request truncated at byte k followed by RST or half-close, wrong "
        "or partial magic word, a raw request naming an object id harvested from ANOTHER client's connection, a client that claims to own the class the "
        "well-behaved clients lend (same name and identifier) and describes it wrongly, hold-open). "
        "oracle: every good client keeps getting its own token, its own state and a working reference; tokens pairwise "
        "distinct; a foreign id is answered with an exception; after EACH hostile client a fresh good client connects and "
        "completes a call; the server is still accepting at the end; in a third of the cases the service's disconnect hook takes "
        "0.15 s, so that the next client arrives while the previous one is still being cleaned up, in a third the service's "
        "constructor takes 0.1 s, and two well-behaved clients may arrive at the same time; every well-behaved client's connection "
        "must carry that client's own endpoints and credentials (TCP). non-trivial = >= 1 hostile client strictly between two "
        "steps of a good client. distinct by scenario hash.")
ASSUMPTIONS = ["real sockets and OS-scheduled threads: oracles are facts true under every OS schedule; real time is only a generous "
               "liveness bound (10 s) and a miss is re-run once in isolation before it counts",
               "GeventServer is out of scope (gevent is not installed)"]


def rnd(seed, n):
    return hashlib.shake_256(b"c16:%d" % seed).digest(n)


def hostile_bytes(kind, p):
    """the bytes a hostile client sends before its closing behaviour"""
    good = rc.frame(rc.dump((rc.MSG_REQUEST, 1, (rc.HANDLERS["PING"], (rc.LABEL_VALUE, ("hello",))))))
    if kind == "random":
        return rnd(p, [1, 5, 6, 64, 700, 70000][p % 6])
    if kind == "frame-then-garbage":
        return good + rnd(p, 40)
    if kind == "absurd-length":
        return struct.pack(">IB", 0xFFFFFFFF, 0) + rnd(p, 30)
    if kind == "huge-length":
        return struct.pack(">IB", 0x7FFFFFF0, 0) + rnd(p, 30)
    if kind == "zero-length":
        return struct.pack(">IB", 0, 0) + b"\n" + good
    if kind == "length-plus-one":
        body = rc.dump((rc.MSG_REQUEST, 1, (rc.HANDLERS["PING"], (rc.LABEL_VALUE, ("x",)))))
        return struct.pack(">IB", len(body) + 1, 0) + body + b"\n" + good
    if kind == "length-minus-one":
        body = rc.dump((rc.MSG_REQUEST, 1, (rc.HANDLERS["PING"], (rc.LABEL_VALUE, ("x",)))))
        return struct.pack(">IB", len(body) - 1, 0) + body + b"\n" + good
    if kind == "corrupt-zlib":
        junk = rnd(p, 50)
        return struct.pack(">IB", len(junk), 1) + junk + b"\n"
    if kind == "zlib-bomb-flag":
        z = zlib.compress(b"\0" * 100000)
        return struct.pack(">IB", len(z), 1) + z + b"\n"
    if kind == "junk-brine":
        junk = bytes([0x1c, 0xff, 0x07, 0x09]) + rnd(p, 10)
        return rc.frame(junk)
    if kind == "not-a-triple":
        return rc.frame(rc.dump([("just", "a", "pair"), 5, None, (1, 2, 3, 4)][p % 4]))
    if kind == "bad-message-kind":
        return rc.frame(rc.dump((99, 1, ())))
    if kind == "truncated-request":
        return good[:1 + p % (len(good) - 1)]
    if kind == "flag-garbage":
        body = rnd(p, 20)
        return struct.pack(">IB", len(body), 7) + body + b"\n"
    if kind == "nothing":
        return b""
    raise ValueError(kind)


HOSTILE = ["random", "frame-then-garbage", "absurd-length", "huge-length", "zero-length", "length-plus-one", "length-minus-one",
           "corrupt-zlib", "zlib-bomb-flag", "junk-brine", "not-a-triple", "bad-message-kind", "truncated-request", "flag-garbage",
           "nothing"]


def run_scenario(case):
    problems = []
    stats = {"hostile": 0, "between": 0}
    fx = servers.Fixture(case["server"], case["transport"], case["auth"], slow_disconnect=case.get("slow_hook", 0.0),
                         slow_init=case.get("slow_init", 0.0))
    good = {}
    held = []
    tokens = []
    # the class lent in THIS scenario (a fresh class object: nothing learnt about it in an earlier scenario applies)
    Lent = type("Widget", (servers.Widget,), {"__module__": servers.Widget.__module__})
    try:
        def own_config(c, where):
            """the connection a client is served on carries THIS client's credentials and endpoints, nobody else's"""
            if case["transport"] != "tcp":
                return                       # unix-socket clients are anonymous: nothing to tell them apart by
            me = c._channel.stream.sock.getsockname()
            creds, endpoints = c.root.config()
            if endpoints is not None and tuple(endpoints[1])[:2] != tuple(me)[:2]:
                problems.append(("config-leak", "connection carries another client's endpoints", [repr(endpoints), repr(me), where]))
            want = ("authenticated:%r" % (me,)) if case["auth"] else None
            if creds != want:
                problems.append(("config-leak", "connection carries another client's credentials", [repr(creds), repr(want), where]))

        def gopen2(slot1, slot2):
            # two well-behaved clients arriving at the same time
            ths = [threading.Thread(target=gopen, args=(sl,)) for sl in (slot1, slot2) if sl not in good]
            for t in ths:
                t.daemon = True
                t.start()
            for t in ths:
                t.join(3 * servers.BOUND)
            stats["together"] = stats.get("together", 0) + (1 if len(ths) == 2 else 0)

        def gopen(slot):
            if slot in good:
                return
            try:
                c = fx.connect_good()
                own_config(c, "first call")
                tok = c.root.whoami()
                val = "value-of-%s" % tok
                c.root.put("k", val)
                ref = c.root.make()
                good[slot] = {"c": c, "tok": tok, "val": val, "ref": ref, "steps": 1, "hostile_since": False}
                tokens.append(tok)
            except Exception as ex:
                problems.append(("good-client-failed", "connect/first calls: %s" % type(ex).__name__, str(ex)[:100]))

        def gcheck(slot):
            g = good.get(slot)
            if not g:
                return
            try:
                c = g["c"]
                tok = c.root.whoami()
                if tok != g["tok"]:
                    problems.append(("wrong-instance", "client served by another connection's service instance", [tok, g["tok"]]))
                v = c.root.get("k")
                if v != g["val"]:
                    problems.append(("state-leak", "client sees state it did not put", [v, g["val"]]))
                own_config(c, "later")
                if case["server"] != "forking" or True:
                    w = c.root.build(Lent, tok)
                    if w != "widget:%s" % tok:
                        problems.append(("class-leak", "a class lent by this client was not the one the server called", [w, tok]))
                if list(g["ref"]) != [g["tok"], "mine"]:
                    problems.append(("reference-broken", "reference no longer resolves to its object", None))
                if g["hostile_since"]:
                    stats["between"] += 1
                    g["hostile_since"] = False
            except Exception as ex:
                problems.append(("good-client-failed", "during the scenario: %s" % type(ex).__name__, str(ex)[:100]))

        def gclose(slot, abrupt):
            g = good.pop(slot, None)
            if not g:
                return
            try:
                if abrupt:
                    servers.abrupt_close(g["c"]._channel.stream.sock)
                    g["c"]._closed = True
                else:
                    g["c"].close()
            except Exception:
                pass

        def hostile(kind, p, ending):
            stats["hostile"] += 1
            for g in good.values():
                g["hostile_since"] = True
            try:
                if kind == "wrong-magic":
                    s = fx.raw_socket(magic=False)
                    s.sendall([b"Ma6iX", b"Ma", b"\0\0\0\0\0", b"XXXXXXXXXXXX"][p % 4])
                elif kind == "impostor-class":
                    # a client that claims to own the very class well-behaved clients lend (same name, same identifier) and
                    # describes it wrongly: whatever the server learns from it must stay on ITS connection
                    from rpyc.lib import get_id_pack
                    s = fx.raw_socket()
                    s.settimeout(servers.BOUND)

                    def rd():
                        hdr = _recv_exact(s, 5)
                        n, flag = struct.unpack(">IB", hdr)
                        body = _recv_exact(s, n + 1)[:-1]
                        return rc.load(zlib.decompress(body) if flag else body, strict_shortest=False)

                    def wr(msg):
                        s.sendall(rc.frame(rc.dump(msg)))
                    wr((rc.MSG_REQUEST, 1, (rc.HANDLERS["GETROOT"], (rc.LABEL_TUPLE, ()))))
                    root = rd()[2]
                    idp = tuple(get_id_pack(Lent))
                    wr((rc.MSG_REQUEST, 2, (rc.HANDLERS["CALLATTR"], (rc.LABEL_TUPLE, (
                        (rc.LABEL_LOCAL_REF, root[1]), (rc.LABEL_VALUE, "build"),
                        (rc.LABEL_TUPLE, ((rc.LABEL_REMOTE_REF, idp), (rc.LABEL_VALUE, "x"))), (rc.LABEL_VALUE, ()))))))
                    for _ in range(6):
                        m_ = rd()
                        if m_[0] == rc.MSG_REQUEST and m_[2][0] == rc.HANDLERS["INSPECT"]:
                            wr((rc.MSG_REPLY, m_[1], (rc.LABEL_VALUE, (("bogus", None), ("__len__", None)))))
                            stats["impostor-described-the-class"] = stats.get("impostor-described-the-class", 0) + 1
                        elif m_[0] == rc.MSG_REQUEST:
                            wr((rc.MSG_EXCEPTION, m_[1], (("builtins", "TypeError"), ("no",), (), "tb")))
                        elif m_[1] == 2:
                            break
                elif kind == "foreign-id":
                    victim = next(iter(good.values()), None)
                    s = fx.raw_socket()
                    if victim is not None:
                        ids = victim["c"].root.ids()
                        s.settimeout(servers.BOUND)
                        for j, idp in enumerate(list(ids)[:3]):
                            s.sendall(rc.frame(rc.dump((rc.MSG_REQUEST, 50 + j, (rc.HANDLERS["REPR"],
                                                                                 (rc.LABEL_TUPLE, ((rc.LABEL_LOCAL_REF, tuple(idp)),)))))))
                            hdr = _recv_exact(s, 5)
                            n, flag = struct.unpack(">IB", hdr)
                            body = _recv_exact(s, n + 1)[:-1]
                            msg = rc.load(zlib.decompress(body) if flag else body, strict_shortest=False)
                            if msg[0] != rc.MSG_EXCEPTION:
                                problems.append(("reference-leak", "object id of another client's connection was resolved", repr(msg)[:100]))
                else:
                    s = fx.raw_socket()
                    data = hostile_bytes(kind, p)
                    try:
                        s.sendall(data)
                    except (socket.error, OSError):
                        pass
                if ending == "abrupt":
                    servers.abrupt_close(s)
                elif ending == "half":
                    try:
                        s.shutdown(socket.SHUT_WR)
                    except (socket.error, OSError):
                        pass
                    held.append(s)
                elif ending == "hold" and len(held) < 2:
                    held.append(s)
                else:
                    s.close()
            except (socket.error, OSError):
                pass          # the server may slam the door on a hostile client at any time
            except Exception as ex:
                problems.append(("harness", "hostile client: %s" % type(ex).__name__, str(ex)[:100]))
            why = fx.accepting()
            if why:
                problems.append(("not-accepting", "after hostile client (%s): %s" % (kind, why.split(":")[0]), why))

        for stp in case["steps"]:
            if problems:
                break
            op = stp[0]
            if op == "gopen":
                gopen(stp[1] % 3)
            elif op == "gopen2":
                gopen2(stp[1] % 3, stp[2] % 3)
            elif op == "gcheck":
                gcheck(stp[1] % 3)
            elif op == "gclose":
                gclose(stp[1] % 3, stp[2])
            elif op == "hostile":
                if stp[1] == "wrong-magic" and not case["auth"]:
                    continue
                hostile(stp[1], stp[2], stp[3])
        if not problems:
            for slot in list(good):
                gcheck(slot)
            if len(set(tokens)) != len(tokens):
                problems.append(("shared-instance", "two connections got the same service instance token", tokens))
            why = fx.accepting()
            if why:
                problems.append(("not-accepting", "at the end: %s" % why.split(":")[0], why))
    finally:
        for s in held:
            try:
                s.close()
            except Exception:
                pass
        for g in good.values():
            try:
                g["c"].close()
            except Exception:
                pass
        fx.stop()
    return problems, stats


def _recv_exact(s, n):
    buf = b""
    while len(buf) < n:
        d = s.recv(n - len(buf))
        if not d:
            raise EOFError("closed")
        buf += d
    return buf


def check(case, rec):
    problems, stats = run_scenario(case)
    if problems and problems[0][0] in ("not-accepting", "good-client-failed"):
        # real time is only a liveness bound: confirm in isolation before it counts
        again, _ = run_scenario(case)
        if not again:
            rec.count("inconclusive: not reproduced in isolation")
            problems = []
        else:
            problems = again
    classes = ["server:" + case["server"], "transport:" + case["transport"], "auth:%s" % case["auth"]]
    classes += ["hostile:" + s[1] for s in case["steps"] if s[0] == "hostile"][:8]
    if case.get("slow_hook"):
        classes.append("slow-disconnect-hook")
    if case.get("slow_init"):
        classes.append("slow-service-constructor")
    if stats.get("together"):
        classes.append("two-good-clients-arrive-together")
    rec.case(case, stats["between"] > 0, classes)
    return [Failure(cl, key, case, det) for cl, key, det in problems[:3]]


def cases(kinds):
    hostile = st.tuples(st.just("hostile"), st.sampled_from(HOSTILE + ["wrong-magic", "foreign-id", "foreign-id", "impostor-class", "impostor-class"]), st.integers(0, 1000),
                        st.sampled_from(["close", "close", "abrupt", "abrupt", "half", "hold"])).map(list)
    step = st.one_of(st.tuples(st.just("gopen"), st.integers(0, 2)).map(list), st.just(["gopen2", 1, 2]), st.tuples(st.just("gcheck"), st.integers(0, 2)).map(list),
                     st.tuples(st.just("gclose"), st.integers(0, 2), st.booleans()).map(list), hostile, hostile)
    # constructive core: a good client is open while hostile clients come and go, then it is checked
    core = st.tuples(st.lists(hostile, min_size=1, max_size=3), st.lists(step, max_size=5)).map(
        lambda t: [["gopen2", 0, 1]] + t[0] + [["gcheck", 0]] + t[1] + [["gcheck", 1]])
    # a barrage: more failing clients than the thread pool has workers, while a good client is connected
    loud = st.tuples(st.just("hostile"), st.sampled_from(["junk-brine", "not-a-triple", "bad-message-kind", "corrupt-zlib", "flag-garbage",
                                                           "length-minus-one", "frame-then-garbage"]), st.integers(0, 1000),
                     st.sampled_from(["close", "abrupt", "half"])).map(list)
    barrage = st.lists(loud, min_size=5, max_size=7).map(lambda hs: [["gopen", 0]] + hs + [["gcheck", 0]])
    return st.fixed_dictionaries({"server": st.sampled_from(kinds), "transport": st.sampled_from(["tcp", "tcp", "unix"]),
                                  "auth": st.booleans(), "slow_hook": st.sampled_from([0.0, 0.0, 0.15]),
                                  "slow_init": st.sampled_from([0.0, 0.0, 0.1]),
                                  "steps": st.one_of(core, core, barrage, st.lists(step, min_size=2, max_size=12))})


def plan(tier, scale):
    if tier == "quick":
        return [{"kinds": ["threaded"], "n": int(14 * scale)} for _ in range(4)] + [{"kinds": ["pool"], "n": int(14 * scale)} for _ in range(4)] + \
               [{"kinds": ["forking"], "n": int(10 * scale)} for _ in range(3)]
    return [{"kinds": [k_], "n": int(160 * scale)} for k_ in ("threaded", "pool", "forking") for _ in range(5)]


def run_shard(desc, seed, rec, tier):
    drive(rec, cases(desc["kinds"]), lambda c: check(c, rec), desc["n"], seed, shrink_budget=25)


def replay(case, rec):
    return check(case, rec)
