"""C10 - objects lent to the peer live exactly as long as the peer holds them."""
import gc

from hypothesis import strategies as st

from vlib import simkernel as sk
from vlib.hyp import drive
from vlib.pair import is_netref
from vlib.runner import Failure

ID = "C10"
LEVEL = "exploration"
RULE = ("case = history over two real connections joined by a HELD link (nothing is delivered until the history says so): "
        "send object k again in an asynchronous request (alone / twice in one tuple / nested in tuples / as keyword), deliver "
        "the next packet owner->holder, deliver the next packet holder->owner, drop one held reference, use a live proxy "
        "(asynchronously), pass a proxy back to its owner, collect a result, gc, fetch object k with an expiry that passes before the "
        "answer is delivered; then drain and close. 3 lendable builtin "
        "lists (+ instances of a harness class in the 'inspect' variant, whose receipt needs a nested HANDLE_INSPECT served by "
        "forced FIFO deliveries). oracle after every step: I1 while the holder has a reference to k or one is in flight, k is "
        "in the owner's table and every use through a proxy answers correctly; I2 when both streams are drained and the "
        "holder has nothing for k, the owner's table has no entry for k; I3 a proxy passed back is the original object; "
        "I4 after close both tables and proxy caches are empty. non-trivial = a CROSSING: a release notice in flight while a "
        "fresh reference to the same object is in flight or is sent before the notice is delivered. distinct by history hash.")
ASSUMPTIONS = ["CPython reference counting finalises a dropped proxy immediately (gc disabled during a case)",
               "the owner's table is inspected directly (harness-side peek) at step boundaries"]


def run_history(case):
    import rpyc
    from rpyc.core import consts
    from rpyc.core.channel import Channel
    from rpyc.core.netref import asyncreq
    from rpyc.lib import get_id_pack
    steps = case["steps"]
    problems = []
    stats = {"crossings": 0, "sends": 0, "drops": 0}
    k = sk.Kernel()
    with k.installed():
        link = sk.Link(k)
        pool = [[10], [20, 21], [30, 31, 32]]
        if case.get("variant") == "inspect":
            # one fresh class per object: the holder must ask for each class's description (nested HANDLE_INSPECT) the first
            # time a reference arrives, and dispatches whatever else is delivered while it waits
            pool = [type("K%d" % i, (object,), {"__len__": (lambda n: lambda self: n)(i + 5)})() for i in range(2)] + [[30, 31, 32]]

        class Holder(rpyc.Service):
            def __init__(self):
                self.slots = []          # (object index, proxy)

            def exposed_take(self, tags, *args, **kwargs):
                found = []
                for a in args:
                    _walk(a, found)
                for key in sorted(kwargs):
                    _walk(kwargs[key], found)
                for tag, prx in zip(tags, found):
                    self.slots.append((tag, prx))
                return len(found)

        class Owner(rpyc.Service):
            def __init__(self):
                self.back = []

            def exposed_get(self, kidx):
                return pool[kidx]

            def exposed_back(self, kidx, x):
                self.back.append((kidx, x is pool[kidx]))
                return True

        holder, owner = Holder(), Owner()
        A = owner._connect(Channel(link.a), {})
        B = holder._connect(Channel(link.b), {})
        out = {}

        def _serve_n(conn):
            try:
                while not out.get("stop"):
                    conn.serve(0.05)
            except Exception:
                pass

        def setup():
            # immediate mode while the two ends get each other's entry points; the helper loops end before the history
            out["take"] = A.root.take
            out["back"] = B.root.back
            out["get"] = B.root.get
            out["stop"] = True
            k.sleep(1.0)

        la = k.spawn(_serve_n, A, name="tmpA", daemon=True)
        lb = k.spawn(_serve_n, B, name="tmpB", daemon=True)
        t = k.spawn(setup, name="setup")
        k.run()
        if "take" not in out or "back" not in out or la.state != sk.DONE or lb.state != sk.DONE:
            return [("harness", "setup failed", repr((t.exc_tb, la.state, lb.state, k.deadlock))[-300:])], stats
        take, back = out["take"], out["back"]
        link.a.hold = link.b.hold = True
        keys = [get_id_pack(o) for o in pool]
        in_flight_refs = []        # per packet owner->holder: list of object indexes it carries (None for other packets)
        notices = []               # per packet holder->owner: ("del", k) | None
        results = []               # (kind, expected, AsyncResult)

        def note_a_sends(before, carried):
            """packets the owner wrote since `before`"""
            n = _count_packets(link.b.held) + _count_packets(link.b.inbox)
            for _ in range(n - before):
                in_flight_refs.append(carried)
                carried = None

        def packets_to_b():
            return _count_packets(link.b.held) + _count_packets(link.b.inbox)

        def packets_to_a():
            return _count_packets(link.a.held) + _count_packets(link.a.inbox)

        pending_del = {}           # object index -> notices in flight
        busy = {"step": False, "done": False, "pumped": 0}

        def sync_books():
            """packets written as a side effect (replies, nested requests) carry no pool reference / are no release notice"""
            while len(in_flight_refs) < packets_to_b():
                in_flight_refs.append(None)
            while len(notices) < packets_to_a():
                notices.append(None)

        def pump():
            # runs only when virtual time advances, i.e. when the driver is blocked inside a step (the holder is waiting for
            # a class description): deliver FIFO, towards the owner first, one packet per turn
            while not busy["done"]:
                k.sleep(0.01)
                if not busy["step"]:
                    continue
                sync_books()
                if link.a.release_packet():
                    n = notices.pop(0) if notices else None
                    if n:
                        pending_del[n[1]] -= 1
                    A.serve(0)
                    sync_books()
                    busy["pumped"] += 1
                elif link.b.release_packet():
                    if in_flight_refs:
                        in_flight_refs.pop(0)
                    busy["pumped"] += 1

        def check(tag):
            table = A._local_objects._dict
            held_by_b = set(kk for kk, _ in holder.slots)
            flying = set()
            for c in in_flight_refs:
                if c:
                    flying.update(c)
            drained = packets_to_a() == 0 and packets_to_b() == 0
            for kk in range(len(pool)):
                present = keys[kk] in table
                if (kk in held_by_b or kk in flying) and not present:
                    problems.append(("I1-released-too-early", "holder has a proxy" if kk in held_by_b else "reference in flight",
                                     {"obj": kk, "after": tag}))
                if drained and kk not in held_by_b and present:
                    problems.append(("I2-leak", "owner still references an object nobody holds", {"obj": kk, "after": tag,
                                                                                                 "count": table[keys[kk]][1]}))

        def driver():
            atake = rpyc.async_(take)
            aback = rpyc.async_(back)
            busy["step"] = True
            for stp in steps:
                op = stp[0]
                sync_books()
                if op == "send":
                    kk, shape = stp[1] % len(pool), stp[2]
                    o = pool[kk]
                    before = packets_to_b()
                    if pending_del.get(kk):
                        stats["crossings"] += 1
                    if shape == "alone":
                        results.append(("take", 1, atake((kk,), o)))
                        carried = [kk]
                    elif shape == "twice":
                        results.append(("take", 2, atake((kk, kk), (o, o))))
                        carried = [kk, kk]
                    elif shape == "nested":
                        results.append(("take", 1, atake((kk,), (1, ("x", (o,))))))
                        carried = [kk]
                    elif shape == "kw":
                        results.append(("take", 1, atake((kk,), key=o)))
                        carried = [kk]
                    else:
                        other = (kk + 1) % len(pool)
                        results.append(("take", 2, atake((kk, other), o, pool[other])))
                        carried = [kk, other]
                    stats["sends"] += 1
                    note_a_sends(before, carried)
                elif op == "to_holder":
                    if link.b.release_packet():
                        carried = in_flight_refs.pop(0) if in_flight_refs else None
                        B.serve(0)
                elif op == "to_owner":
                    if link.a.release_packet():
                        n = notices.pop(0) if notices else None
                        if n:
                            pending_del[n[1]] -= 1
                        A.serve(0)
                elif op == "drop":
                    if holder.slots:
                        i = stp[1] % len(holder.slots)
                        kk, prx = holder.slots[i]
                        before = packets_to_a()
                        del holder.slots[i]
                        del prx
                        n = packets_to_a() - before
                        stats["drops"] += 1
                        for _ in range(n):
                            notices.append(("del", kk))
                            pending_del[kk] = pending_del.get(kk, 0) + 1
                            if any(c and kk in c for c in in_flight_refs):
                                stats["crossings"] += 1
                elif op == "use":
                    if holder.slots:
                        kk, prx = holder.slots[stp[1] % len(holder.slots)]
                        before = packets_to_a()
                        results.append(("use", len(pool[kk]), asyncreq(prx, consts.HANDLE_CALLATTR, "__len__", (), ())))
                        del prx
                        for _ in range(packets_to_a() - before):
                            notices.append(None)
                elif op == "back":
                    if holder.slots:
                        kk, prx = holder.slots[stp[1] % len(holder.slots)]
                        before = packets_to_a()
                        results.append(("back", True, aback(kk, prx)))
                        del prx
                        for _ in range(packets_to_a() - before):
                            notices.append(None)
                elif op == "fetch_late":
                    # the holder asks for object k with an expiry and the answer (a reference) arrives after it: nobody will
                    # ever hold that reference, so the owner must not keep it either
                    kk = stp[1] % len(pool)
                    r = rpyc.async_(out["get"])(kk)
                    r.set_expiry(0.5)
                    busy["step"] = False
                    k.sleep(1.0)
                    busy["step"] = True
                    del r
                    stats["late_fetches"] = stats.get("late_fetches", 0) + 1
                elif op == "gc":
                    gc.collect()
                sync_books()
                check(op)
                if problems:
                    return
            # drain FIFO, alternating
            for _ in range(400):
                moved = False
                if link.b.release_packet():
                    if in_flight_refs:
                        in_flight_refs.pop(0)
                    B.serve(0)
                    moved = True
                if link.a.release_packet():
                    if notices:
                        n = notices.pop(0)
                    A.serve(0)
                    moved = True
                if not moved:
                    break
            del in_flight_refs[:]
            check("drain")
            for kind, want, r in results:
                if not r._is_ready:
                    problems.append(("result-missing", kind, want))
                    continue
                try:
                    v = r.value
                except Exception as ex:
                    problems.append(("I1-use-failed" if kind != "take" else "take-failed", "%s raised %s" % (kind, type(ex).__name__),
                                     str(ex)[:80]))
                    continue
                if v != want:
                    problems.append(("wrong-result", kind, [v, want]))
            for kidx, same in owner.back:
                if not same:
                    problems.append(("I3-identity", "proxy passed back is not the original object", kidx))
            # drop everything, drain, then the table must be empty of pool objects; then close
            while holder.slots:
                holder.slots.pop()
            del results[:]
            for _ in range(100):
                moved = False
                if link.a.release_packet():
                    A.serve(0)
                    moved = True
                if link.b.release_packet():
                    B.serve(0)
                    moved = True
                if not moved:
                    break
            check("all-dropped")
            # I4: hold something again, then close
            r = rpyc.async_(take)((0,), pool[0])
            link.b.release_packet()
            B.serve(0)
            busy["step"] = False
            A.close()
            while link.b.release_packet():
                try:
                    B.serve(0)
                except EOFError:
                    break
            try:
                B.close()
            except Exception:
                pass
            for name, conn in (("owner", A), ("holder", B)):
                if conn._local_objects._dict:
                    problems.append(("I4-close", "%s's table not empty after close" % name, len(conn._local_objects._dict)))
                if conn._proxy_cache._dict and name == "owner":
                    problems.append(("I4-close", "%s's proxy cache not empty after close" % name, len(conn._proxy_cache._dict)))

        def driver_then_stop():
            try:
                driver()
            finally:
                busy["done"] = True

        td = k.spawn(driver_then_stop, name="driver")
        k.spawn(pump, name="pump", daemon=True)
        k.run()
        busy["done"] = True
        stats["pumped"] = busy["pumped"]
        if td.exc is not None:
            problems.append(("driver-raised", type(td.exc).__name__, td.exc_tb[-400:]))
        if k.deadlock:
            problems.append(("deadlock", "history blocked (a step needed the peer)", k.deadlock))
        A._closed = B._closed = True
        holder.slots = []
    return problems, stats


def _walk(x, found):
    # module-level on purpose: a recursive closure would form a reference cycle and keep the proxies alive (gc is off)
    if type(x) is tuple:
        for e in x:
            _walk(e, found)
    elif is_netref(x):
        found.append(x)


def _count_packets(buf):
    n = 0
    p = 0
    while p + 5 <= len(buf):
        ln = int.from_bytes(buf[p:p + 4], "big")
        if p + 6 + ln > len(buf):
            break
        n += 1
        p += 6 + ln
    return n


def check(case, rec):
    problems, stats = run_history(case)
    kinds = set(s[0] for s in case["steps"])
    classes = ["step:" + k_ for k_ in kinds]
    if stats["crossings"]:
        classes.append("crossing")
    if any(s[0] == "send" and s[2] == "twice" for s in case["steps"]):
        classes.append("repeated-in-one-tuple")
    if stats.get("late_fetches"):
        classes.append("reference-arriving-after-the-request-expired")
    if case.get("variant") == "inspect":
        classes.append("inspect-variant")
        if stats.get("pumped"):
            classes.append("nested-dispatch-while-waiting-for-class-description")
    rec.count("forced_deliveries", stats.get("pumped", 0))
    rec.case(case, stats["crossings"] > 0, classes)
    rec.count("crossings", stats["crossings"])
    return [Failure(cl, key, case, det) for cl, key, det in problems[:3]]


# ---- schedules: re-sending an object races with the serving thread processing its release notice ----------------------
def run_race(case, chooser):
    import rpyc
    from rpyc.core import consts
    from rpyc.core.channel import Channel
    from rpyc.lib import get_id_pack
    import rpyc.lib.colls as colls
    import rpyc.core.protocol as protocol
    from vlib import refcodec as rc
    from vlib.refpeer import RawPeer
    problems = []
    k = sk.Kernel(chooser, trace_files=[colls.__file__, protocol.__file__],
                  trace_funcs=["add", "decref", "_box", "_handle_del", "__getitem__", "_unbox", "_resolve_local_refs"],
                  max_steps=50000)
    with k.installed():
        link = sk.Link(k)
        A = rpyc.VoidService()._connect(Channel(link.a), {})
        peer = RawPeer(link.b, strict=False)
        obj = [1, 2]
        key = get_id_pack(obj)
        first = case["first"]
        for _ in range(first):                       # the peer already holds `first` references through one proxy
            A._local_objects.add(key, obj)
        # the peer drops that proxy: its release notice is waiting in the owner's inbox
        peer.send_msg(rc.MSG_REQUEST, 77, (rc.HANDLERS["DEL"], (rc.LABEL_TUPLE, ((rc.LABEL_LOCAL_REF, key),
                                                                               (rc.LABEL_VALUE, first)))))

        def sender():
            for _ in range(case["resend"]):
                A.async_request(consts.HANDLE_PING, obj)

        def server():
            A.serve(1)
        k.spawn(sender, name="sender")
        k.spawn(server, name="server")
        k.run()
        if k.deadlock:
            problems.append(("deadlock", "race", k.deadlock))
        table = A._local_objects._dict
        slot = table.get(key)
        # the peer now holds exactly case["resend"] fresh references
        if slot is None:
            problems.append(("I1-released-too-early", "re-sent object missing from the owner's table (race with release notice)",
                             {"resend": case["resend"], "first": first}))
        elif slot[1] != case["resend"] - 1:
            problems.append(("I2-leak" if slot[1] > case["resend"] - 1 else "I1-released-too-early",
                             "count after racing release/re-send", {"count": slot[1], "want": case["resend"] - 1}))
        A._closed = True
    return problems


def dfs_race(case, bound, rec):
    prefix = []
    n = 0
    while prefix is not None:
        ch = sk.TrailChooser(prefix, bound)
        problems = run_race(case, ch)
        trail = [c for c, _ in ch.trail]
        full = dict(case, part="race", bound=bound, trail=trail)
        rec.case(full, any(trail), ["race first=%d resend=%d" % (case["first"], case["resend"]), "crossing"])
        for f in rec.triage([Failure(cl, key, full, det) for cl, key, det in problems[:2]]):
            rec.violation(f)
        n += 1
        if rec.failures and n > 50:          # a broken tree: the verdict is known, do not enumerate every failing schedule
            rec.count("dfs stopped early after violations")
            break
        prefix = ch.next_prefix()
    return n


def cases():
    send = st.tuples(st.just("send"), st.integers(0, 2), st.sampled_from(["alone", "alone", "twice", "nested", "kw", "pair"])).map(list)
    idx = st.integers(0, 5)
    step = st.one_of(send, send, st.just(["to_holder"]), st.just(["to_holder"]), st.just(["to_owner"]),
                     st.tuples(st.just("drop"), idx).map(list), st.tuples(st.just("drop"), idx).map(list),
                     st.tuples(st.just("use"), idx).map(list), st.tuples(st.just("back"), idx).map(list), st.just(["gc"]),
                     st.tuples(st.just("fetch_late"), st.integers(0, 2)).map(list))
    # constructive crossing: send, deliver, drop (notice in flight), send again before the notice is delivered
    cross = st.tuples(st.integers(0, 2), st.sampled_from(["alone", "twice", "nested", "kw"]),
                      st.sampled_from(["alone", "twice", "kw"]), st.lists(step, max_size=6)).map(
        lambda t: [["send", t[0], t[1]], ["to_holder"], ["drop", 0]] + ([["drop", 0]] if t[1] == "twice" else []) +
        [["send", t[0], t[2]]] + t[3])
    # constructive nesting (inspect variant): two references to one object in flight, so that the second is dispatched while the
    # holder waits for the class description of the first; then a release crossing a third reference
    nest = st.tuples(st.integers(0, 1), st.sampled_from(["alone", "kw", "nested"]), st.integers(0, 3), st.lists(step, max_size=6)).map(
        lambda t: [["send", t[0], "alone"], ["send", t[0], t[1]], ["to_holder"], ["to_holder"], ["send", t[0], "alone"],
                   ["drop", 0], ["drop", 0]] + [["to_owner"]] * t[2] + [["to_holder"], ["use", 0]] + t[3])
    lists_only = st.fixed_dictionaries({"steps": st.one_of(st.lists(step, min_size=2, max_size=30),
                                                          st.tuples(st.lists(step, max_size=8), cross).map(lambda t: t[0] + t[1]))})
    inspect = st.fixed_dictionaries({"variant": st.just("inspect"),
                                     "steps": st.one_of(st.lists(step, min_size=2, max_size=30),
                                                        st.tuples(st.lists(step, max_size=8), cross).map(lambda t: t[0] + t[1]),
                                                        st.tuples(st.lists(step, max_size=4), nest).map(lambda t: t[0] + t[1]))})
    return st.one_of(lists_only, lists_only, inspect)


def plan(tier, scale):
    n, sh = (60, 10) if tier == "quick" else (1500, 14)
    out = [{"part": "histories", "n": int(n * scale)} for _ in range(sh)]
    bound = 2 if tier == "quick" else 3
    for first in (1, 2):
        for resend in (1, 2):
            out.append({"part": "race", "case": {"first": first, "resend": resend}, "bound": bound})
    return out


def run_shard(desc, seed, rec, tier):
    if desc["part"] == "race":
        rec.count("race_schedules", dfs_race(desc["case"], desc["bound"], rec))
    else:
        drive(rec, cases(), lambda c: check(c, rec), desc["n"], seed)


def replay(case, rec):
    if case.get("part") == "race":
        rec.case(case, True, ["replay"])
        problems = run_race(case, sk.TrailChooser(case["trail"], case["bound"]))
        return [Failure(cl, key, case, det) for cl, key, det in problems[:2]]
    return check(case, rec)
