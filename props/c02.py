"""C02 - operating on a proxy is indistinguishable from operating on the target."""
import collections
import io
import operator

from hypothesis import strategies as st

from vlib import vals
from vlib.hyp import drive
from vlib.pair import Pair, is_netref
from vlib.runner import Failure

ID = "C02"
LEVEL = "exploration"
RULE = ("case = (configuration: classic / public attributes + set + delete / default policy; history <= 25 steps over a world of "
        "target-side objects: list, dict, set, bytearray, deque, generator, io.BytesIO and instances of a harness class with "
        "operator overloads, properties whose accessors may raise, __bool__/__len__/__hash__/__eq__/__call__, item protocol "
        "and context-manager protocol). Step kinds (derived from what netrefs forward): attribute get/set/delete, method call "
        "by name with per-type argument tables, binary operators in both operand orders, in-place and unary operators, "
        "comparisons, index/slice get/set/delete with int/slice/None/wrong-type keys, contains, iter/next/full iteration, "
        "buffered iteration for generated chunk/max_chunk/factor, len/str/repr/hash/bool/dir/format, isinstance and __class__, "
        "call, and 'with' blocks with and without an exception in the body. Operands are immutable values or other handles of "
        "the same world. oracle: a local twin world receives the same history with plain Python; after every step both raise "
        "the same exception class or both return; immutable results are type-exact/bit-exact equal; other results must be "
        "proxies whose target has the same canonical snapshot as the twin's result; every target's snapshot equals its twin's. "
        "non-trivial = a history with >= 1 state-changing step and >= 1 step on an error path. distinct by history hash.")
ASSUMPTIONS = ["equivalence is claimed for the generated operation kinds and target types only; type(p), id(p) and `p is q` are outside "
               "the property (netref.py documents __class__ as the faithful one)",
               "under the default policy only operations whose names that policy permits are generated"]


# ---- target-side classes (module level: their names resolve on the requester's side too) ------------------------------
class Vec(object):
    """operator overloads returning values / self / new objects, properties, protocols"""

    def __init__(self, *xs):
        self.xs = list(xs)
        self.log = []
        self._temp = 20
        self.exposed_tag = "tag"
        self.reading = 12.75
        self.exposed_reading = 13

    def __repr__(self):
        return "Vec(%s)" % ", ".join(map(repr, self.xs))

    def __str__(self):
        return "<" + ",".join(map(str, self.xs)) + ">"

    def __format__(self, spec):
        return "Vec:%s:%d" % (spec, len(self.xs))

    def __len__(self):
        return len(self.xs)

    def __bool__(self):
        return bool(self.xs) and self.xs[0] != 0

    def __hash__(self):
        return hash(tuple(self.xs))

    def __eq__(self, other):
        if isinstance(other, Vec):
            return self.xs == other.xs
        return NotImplemented

    def __lt__(self, other):
        if isinstance(other, Vec):
            return self.xs < other.xs
        if isinstance(other, int):
            return len(self.xs) < other
        return NotImplemented

    def __add__(self, other):
        if isinstance(other, Vec):
            return Vec(*(self.xs + other.xs))
        if isinstance(other, int):
            return Vec(*[x + other for x in self.xs])
        return NotImplemented

    def __radd__(self, other):
        if isinstance(other, int):
            return Vec(*[other + x for x in self.xs])
        return NotImplemented

    def __iadd__(self, other):
        if isinstance(other, int):
            self.xs = [x + other for x in self.xs]
            return self
        if isinstance(other, tuple):
            self.xs.extend(other)
            return self
        return NotImplemented

    def __mul__(self, n):
        if isinstance(n, int):
            return sum(self.xs) * n
        return NotImplemented

    def __rmul__(self, n):
        return self.__mul__(n)

    def __neg__(self):
        return Vec(*[-x for x in self.xs])

    def __abs__(self):
        return sum(abs(x) for x in self.xs)

    def __invert__(self):
        raise ArithmeticError("no inverse")

    def __contains__(self, x):
        return x in self.xs

    def __getitem__(self, k):
        return self.xs[k]

    def __setitem__(self, k, v):
        self.xs[k] = v

    def __delitem__(self, k):
        del self.xs[k]

    def __iter__(self):
        return iter(self.xs)

    def __call__(self, *a, **kw):
        self.log.append(("call", a, tuple(sorted(kw.items()))))
        return (len(a), tuple(sorted(kw)))

    def __enter__(self):
        self.log.append("enter")
        return self

    def __exit__(self, t, v, tb):
        self.log.append(("exit", None if t is None else getattr(t, "__name__", str(t))))
        return t is not None and issubclass(t, KeyError)

    @property
    def temp(self):
        if self._temp > 100:
            raise ValueError("too hot")
        return self._temp

    @temp.setter
    def temp(self, v):
        if not isinstance(v, int):
            raise TypeError("int only")
        self._temp = v

    @temp.deleter
    def temp(self):
        self._temp = 0

    def scale(self, k=2, offset=0):
        self.xs = [x * k + offset for x in self.xs]
        return len(self.xs)

    def boom(self):
        raise LookupError("boom")

    def exhaust(self):
        raise Exhausted()                        # a data-less subclass of StopIteration: `except Exhausted:` must still catch it

    def pair(self):
        return Point(len(self.xs), "p")          # an instance of a tuple SUBCLASS: not a plain value, travels by reference

    exposed_scale = scale


class Exhausted(StopIteration):
    pass


Point = collections.namedtuple("Point", ["first", "n"])


class Vec2(Vec):
    """everything inherited: the proxy must know the base classes' methods"""
    extra = 1


def _node_class(with_len):
    ns = {"__module__": __name__, "__repr__": lambda self: "Node()", "value": 7}
    if with_len:
        ns["__len__"] = lambda self: 3
        ns["__getitem__"] = lambda self, i: [1, 2, 3][i]
    else:
        ns["__bool__"] = lambda self: False
    return type("Node", (object,), ns)


NodeA, NodeB = _node_class(True), _node_class(False)      # two distinct classes that share module and name


class Weird(object):
    """comparisons that are neither reflexive nor boolean (query-builder / NaN style)"""

    def __init__(self, name):
        self.name = name

    def __repr__(self):
        return "Weird(%r)" % self.name

    def __eq__(self, other):
        return ("EQ", self.name, getattr(other, "name", None))

    def __ne__(self, other):
        return ("NE", self.name, getattr(other, "name", None))

    __hash__ = None


def gen3():
    yield 1
    yield "two"
    return "done"


def make_world():
    return [[1, 2, 3], {"a": 1, 2: "b"}, {1, 2}, bytearray(b"abc"), collections.deque([1, 2]), io.BytesIO(b"hello world"),
            Vec(1, 2), Vec(0), iter([10, 20, 30]), gen3(), list(range(12)), Vec2(5, -5, 0), NodeA(), NodeB(), iter(range(40)),
            Weird("a"), iter(range(2600)), Point(3, "x")]


KINDS = ["list", "dict", "set", "bytearray", "deque", "bytesio", "vec", "vec", "iter", "gen", "list", "vec", "node", "node", "iter", "weird", "iter", "ntuple"]


def snapshot(o, depth=0, seen=None):
    seen = seen if seen is not None else {}
    if vals.plain(o):
        return ["v", vals.canon(o)]
    if depth > 4:
        return ["deep"]
    if id(o) in seen:
        return ["cycle"]
    seen[id(o)] = 1
    t = type(o)
    try:
        if t is tuple:
            return ["tuple"] + [snapshot(x, depth + 1, seen) for x in o]
        if t is list:
            return ["list"] + [snapshot(x, depth + 1, seen) for x in o]
        if t is dict:
            return ["dict"] + sorted(([snapshot(k, depth + 1, seen), snapshot(v, depth + 1, seen)] for k, v in o.items()), key=repr)
        if t in (set, frozenset):
            return ["set"] + sorted((snapshot(x, depth + 1, seen) for x in o), key=repr)
        if t is bytearray:
            return ["bytearray", bytes(o).hex()]
        if t is collections.deque:
            return ["deque"] + [snapshot(x, depth + 1, seen) for x in o]
        if t is io.BytesIO:
            return ["bytesio", o.closed] + ([o.getvalue().hex(), o.tell()] if not o.closed else [])
        if t in (NodeA, NodeB):
            return ["node", sorted(o.__dict__)]
        if t is Weird:
            return ["weird", o.name]
        if t in (Vec, Vec2):
            d = o.__dict__
            return ["vec", snapshot(d.get("xs", "<deleted>"), depth + 1, seen), snapshot(d.get("log", "<deleted>"), depth + 1, seen),
                    snapshot(d.get("_temp", "<deleted>"), depth + 1, seen),
                    sorted([k, snapshot(v, depth + 1, seen)] for k, v in d.items() if k not in ("xs", "log", "_temp"))]
        if isinstance(o, tuple):
            return ["tuple-subclass", t.__name__] + [snapshot(x, depth + 1, seen) for x in o]
        if isinstance(o, BaseException):
            return ["exc", t.__name__, repr(o.args)]
        return ["opaque", t.__name__]
    finally:
        seen.pop(id(o), None)


def _has_nan(x, depth=0):
    if depth == 0 and not vals.plain(x if type(x) is not list else tuple(x)):
        return True          # an element that is an object hashes by identity as well (or not at all)
    if type(x) is float:
        return x != x
    if type(x) is complex:
        return x.real != x.real or x.imag != x.imag
    if type(x) in (tuple, list, frozenset) and depth < 6:
        return any(_has_nan(e, depth + 1) for e in x)
    if type(x) is slice and depth < 6:
        return any(_has_nan(e, depth + 1) for e in (x.start, x.stop, x.step))
    return False


def _noaddr(s):
    """default reprs carry the object's address: identity, not behaviour"""
    import re
    return re.sub(r"0x[0-9a-fA-F]+", "0x?", s)


OPS2 = {"add": operator.add, "sub": operator.sub, "mul": operator.mul, "mod": operator.mod, "and": operator.and_, "or": operator.or_,
        "xor": operator.xor, "floordiv": operator.floordiv, "truediv": operator.truediv, "lshift": operator.lshift}
IOPS = {"iadd": operator.iadd, "isub": operator.isub, "imul": operator.imul, "iand": operator.iand, "ior": operator.ior, "ixor": operator.ixor}
UOPS = {"neg": operator.neg, "pos": operator.pos, "invert": operator.invert, "abs": abs}
CMPS = {"eq": operator.eq, "ne": operator.ne, "lt": operator.lt, "le": operator.le, "gt": operator.gt, "ge": operator.ge}
METHODS = {
    "list": [("append", 1), ("pop", 0), ("pop", 1), ("insert", 2), ("extend", 1), ("index", 1), ("count", 1), ("reverse", 0), ("sort", 0),
             ("clear", 0), ("copy", 0), ("remove", 1)],
    "dict": [("get", 1), ("get", 2), ("pop", 1), ("pop", 2), ("setdefault", 2), ("keys", 0), ("values", 0), ("items", 0), ("update", 1),
             ("clear", 0), ("copy", 0), ("popitem", 0)],
    "set": [("add", 1), ("discard", 1), ("remove", 1), ("pop", 0), ("union", 1), ("issubset", 1), ("clear", 0), ("copy", 0)],
    "bytearray": [("append", 1), ("extend", 1), ("decode", 0), ("find", 1), ("upper", 0), ("pop", 0), ("hex", 0)],
    "deque": [("append", 1), ("appendleft", 1), ("pop", 0), ("popleft", 0), ("rotate", 1), ("clear", 0), ("count", 1)],
    "bytesio": [("read", 0), ("read", 1), ("write", 1), ("seek", 1), ("tell", 0), ("getvalue", 0), ("close", 0), ("readline", 0),
                ("truncate", 1)],
    "vec": [("scale", 0), ("scale", 0), ("scale", 1), ("scale", 2), ("boom", 0), ("missing_method", 0), ("pair", 0), ("exhaust", 0)], "node": [("missing_method", 0)],
    "ntuple": [("_replace", 0), ("_asdict", 0), ("count", 1), ("index", 1), ("missing_method", 0)],
    "iter": [], "gen": [("send", 1), ("close", 0)], "str": [("upper", 0), ("split", 0), ("find", 1)],
}
ATTRS = ["xs", "temp", "_temp", "log", "exposed_tag", "missing", "closed", "maxlen", "real", "__doc__", "newattr", "reading", "reading",
         "value", "extra", "first", "n", "_fields"]


def apply_step(step, objs, val, world_new):
    """run one step against objs (twins or proxies); returns a Python value or raises"""
    op = step[0]
    o = objs[step[1] % len(objs)]

    def operand(spec):
        if spec[0] == "h":
            return objs[spec[1] % len(objs)]
        return val(spec[1])
    if op == "getattr":
        return getattr(o, step[2])
    if op == "setattr":
        setattr(o, step[2], operand(step[3]))
        return None
    if op == "delattr":
        delattr(o, step[2])
        return None
    if op == "method":
        name, args = step[2], [operand(a) for a in step[3]]
        kw = dict((k, operand(v)) for k, v in step[4])
        return getattr(o, name)(*args, **kw)
    if op in ("binop", "iop") and step[2] in ("mul", "imul"):
        # repeated `seq *= 12` grows without bound: keep multipliers tiny (the generator's other values stay as they are)
        v_ = operand(step[3])
        if type(v_) is int:
            v_ = max(-1, min(2, v_))
        if op == "binop":
            return OPS2["mul"](v_, o) if step[4] else OPS2["mul"](o, v_)
        r = IOPS["imul"](o, v_)
        objs[step[1] % len(objs)] = r
        return ("rebound", r)
    if op == "binop":
        a, b = o, operand(step[3])
        if step[4]:
            a, b = b, a
        return OPS2[step[2]](a, b)
    if op == "iop":
        r = IOPS[step[2]](o, operand(step[3]))
        objs[step[1] % len(objs)] = r          # `x op= y` rebinds the name
        return ("rebound", r)
    if op == "unop":
        return UOPS[step[2]](o)
    if op == "cmp":
        return CMPS[step[2]](o, operand(step[3]))
    if op == "cmp_self":
        return CMPS[step[2]](o, o)
    if op == "getitem":
        return o[operand(step[2])]
    if op == "setitem":
        o[operand(step[2])] = operand(step[3])
        return None
    if op == "delitem":
        del o[operand(step[2])]
        return None
    if op == "contains":
        return operand(step[2]) in o
    if op == "iter_all":
        return tuple(x if vals.plain(x) else ("obj",) for x in o)
    if op == "iter":
        return iter(o)
    if op == "next":
        return next(o)
    if op == "buffiter":
        from rpyc.utils.helpers import buffiter
        if world_new == "proxy":
            return tuple(x if vals.plain(x) else ("obj",) for x in buffiter(o, step[2], step[3], step[4]))
        if step[4] < 1:
            raise ValueError("factor")
        return tuple(x if vals.plain(x) else ("obj",) for x in iter(o))
    if op == "len":
        return len(o)
    if op == "str":
        return _noaddr(str(o))
    if op == "repr":
        return _noaddr(repr(o))
    if op == "hash":
        return hash(o)
    if op == "bool":
        return bool(o)
    if op == "dir":
        return tuple(sorted(n for n in dir(o) if not n.startswith("____")))
    if op == "format":
        return _noaddr(format(o, step[2]))
    if op == "isinstance":
        cls = {"list": list, "dict": dict, "vec": Vec, "int": int, "deque": collections.deque, "object": object}[step[2]]
        if cls is Vec and world_new == "proxy" and False:
            pass
        return isinstance(o, cls)
    if op == "class":
        return o.__class__.__name__
    if op == "call":
        return o(*[operand(a) for a in step[2]], **dict((k, operand(v)) for k, v in step[3]))
    if op == "with":
        with o as x:
            same = x is o or (is_netref(x) and is_netref(o))
            if step[2] == "raise-suppressed":
                raise KeyError("inside")
            if step[2] == "raise-propagated":
                raise IndexError("inside")
            return ("with-body", bool(same))
        return ("with-suppressed",)
    raise ValueError(step)


CONFIGS = {
    "classic": dict(allow_all_attrs=True, allow_setattr=True, allow_delattr=True, allow_getattr=True, allow_pickle=True,
                    allow_exposed_attrs=False, import_custom_exceptions=True, instantiate_custom_exceptions=True,
                    instantiate_oldstyle_exceptions=True),       # what SlaveService.on_connect sets
    "public": dict(allow_public_attrs=True, allow_setattr=True, allow_delattr=True),
    "default": {},
}
# what the default policy permits by name (safe attrs / exposed prefix): other step kinds are not generated under it
DEFAULT_OK = set(["binop", "iop", "unop", "cmp", "cmp_self", "getitem", "setitem", "delitem", "contains", "iter_all", "iter", "next", "buffiter", "len",
                  "str", "repr", "hash", "bool", "format", "call", "with", "isinstance"])


def mutating(step):
    return step[0] in ("setattr", "delattr", "iop", "setitem", "delitem", "next", "buffiter", "iter_all", "call", "with") or \
        (step[0] == "method" and step[2] in ("append", "pop", "insert", "extend", "reverse", "sort", "clear", "remove", "setdefault", "update",
                                                "popitem", "add", "discard", "appendleft", "popleft", "rotate", "write", "read", "seek", "close",
                                                "truncate", "readline", "scale", "send"))


def check(case, rec):
    import rpyc
    cfg = case["config"]
    steps = [s for s in case["steps"] if cfg != "default" or s[0] in DEFAULT_OK]
    # a builtin left operand that inspects the concrete (buffer) type of its right operand cannot be served by any proxy:
    # `b"" + bytearray_proxy`, `b"%s" % proxy` (only bytes do this with the world's targets)
    steps = [s for s in steps if not (s[0] == "binop" and s[4] and s[3][0] == "v" and s[3][1][0] in ("bytes", "bytesrep"))]
    if cfg != "classic":     # an exposed_ twin stands in for a missing plain attribute by policy (C06): keep the plain one alive
        steps = [s for s in steps if not (s[0] == "delattr" and s[2] == "reading")]
    if cfg != "classic":     # only classic mode rebuilds the peer's own exception classes (elsewhere a stand-in class arrives: C09)
        steps = [s for s in steps if not (s[0] == "method" and s[2] == "exhaust")]
    if cfg == "public":      # that mode permits names that do not start with an underscore
        steps = [s for s in steps if not (s[0] in ("getattr", "setattr", "delattr", "method") and str(s[2]).startswith("_"))]
    twin_objs = make_world()
    twins = list(twin_objs)          # the name bindings of the twin world (`x op= y` may rebind a name)
    reals = make_world()
    problems = []
    errors = 0
    muts = sum(1 for s in steps if mutating(s))
    out = {}

    class Holder(rpyc.Service):
        def exposed_world(self):
            return tuple(reals)          # a tuple of references

    with Pair(rpyc.VoidService, Holder(), dict(CONFIGS[cfg] if cfg == "classic" else {}, sync_request_timeout=60), dict(CONFIGS[cfg])) as p:
        def driver():
            nonlocal errors
            proxies = list(p.a.root.exposed_world() if cfg == "classic" else p.a.root.world())
            if [is_netref(x) for x in proxies].count(True) != len(reals):
                problems.append(("setup", "world did not arrive as references", None))
                return
            for i, stp in enumerate(steps):
                twin_before = twins[stp[1] % len(twins)]
                if cfg != "classic" and stp[0] in ("class", "isinstance") and type(twin_before) in (NodeA, NodeB):
                    continue     # the class is not importable at the requester: __class__ is then an attribute read the policy denies
                if stp[0] == "binop" and stp[4] and stp[3][0] == "v" and isinstance(twin_before, tuple):
                    continue     # `(1,) + x`, `"%s" % x`: a builtin left operand inspects the concrete type of x; no proxy can pass for a tuple there
                try:
                    tw = ("ok", apply_step(stp, twins, vals.build, "twin"))
                except Exception as ex:
                    tw = ("exc", type(ex).__name__)
                try:
                    pr = ("ok", apply_step(stp, proxies, vals.build, "proxy"))
                except Exception as ex:
                    pr = ("exc", type(ex).__name__)
                except BaseException as ex:
                    pr = ("exc", type(ex).__name__)
                if tw[0] == "exc":
                    errors += 1
                if stp[0] == "hash" and tw[0] == pr[0] == "ok" and type(pr[1]) is int and (
                        type(twin_before) not in (Vec, Vec2) or _has_nan(getattr(twin_before, "xs", ()))):
                    # identity-based hashes (default objects; a NaN hashes by the identity of the float/complex object holding it)
                    tw = pr = ("ok", "identity-based hash")       # compared only for being integers
                if stp[0] == "iter" and tw[0] == pr[0] == "ok" and type(tw[1]).__name__ == "iterator" == type(pr[1]).__name__:
                    # sequence-protocol iteration: Python itself builds a local iterator around the object (or proxy)
                    twins.append(tw[1])
                    proxies.append(pr[1])
                    continue
                key = stp[0] + (":" + str(stp[2]) if stp[0] in ("method", "binop", "iop", "unop", "cmp", "cmp_self", "getattr", "setattr", "delattr", "with",
                                                               "format", "isinstance") else "")
                kind = type(twin_before).__name__
                if tw[0] != pr[0] or (tw[0] == "exc" and tw[1] != pr[1]):
                    sig = "%s on %s: proxy %s, target %s" % (key, kind, pr[1] if pr[0] == "exc" else "returns",
                                                             tw[1] if tw[0] == "exc" else "returns")
                    if stp[0] in ("binop", "iop") and stp[2] in ("or", "ior") and pr == ("exc", "AttributeError") and tw == ("exc", "TypeError") \
                            and (kind != "Vec" or (stp[3][0] == "h" and type(twins[stp[3][1] % len(twins)]) is not Vec)):
                        sig = "operator | on a proxy of a builtin-type instance: proxy AttributeError, target TypeError"
                    if stp[0] == "with" and stp[2] != "plain":
                        sig = "with-block whose body raises: the target's __exit__ does not see the exception that was raised"
                    problems.append(("outcome", sig,
                                     {"step": i, "proxy": repr(pr)[:120], "twin": repr(tw)[:120]}))
                    return
                if tw[0] == "ok":
                    tv, pv = tw[1], pr[1]
                    if type(tv) is tuple and tv[:1] == ("rebound",) and type(pv) is tuple:
                        tv, pv = tv[1], pv[1]
                    if vals.plain(tv):
                        if not vals.plain(pv) or not vals.same(pv, tv):
                            problems.append(("result", "%s on %s: immutable result differs" % (key, kind),
                                             {"step": i, "proxy": repr(pv)[:100], "twin": repr(tv)[:100]}))
                            return
                    else:
                        if not is_netref(pv) and type(tv) is not tuple:
                            problems.append(("result", "%s on %s: non-immutable result arrived as a copy" % (key, kind),
                                             {"step": i, "type": type(pv).__name__}))
                            return
                        target = p.resolve(pv) if is_netref(pv) else pv
                        if type(tv) is tuple:
                            ok = type(target) is tuple and len(target) == len(tv) and all(
                                snapshot(p.resolve(a) if is_netref(a) else a) == snapshot(b) for a, b in zip(target, tv))
                        else:
                            ok = snapshot(target) == snapshot(tv)
                        if not ok:
                            problems.append(("result", "%s on %s: result object differs" % (key, kind),
                                             {"step": i, "proxy": repr(snapshot(target))[:120], "twin": repr(snapshot(tv))[:120]}))
                            return
                        if type(tv) is not tuple and len(twins) < 32:
                            twins.append(tv)
                            proxies.append(pv)
                # state of every target vs its twin
                for j in range(len(reals)):
                    if snapshot(reals[j]) != snapshot(twin_objs[j]):
                        sig = "%s on %s left the target in another state" % (key, kind)
                        if stp[0] == "with" and stp[2] != "plain":
                            sig = "with-block whose body raises: the target's __exit__ does not see the exception that was raised"
                        problems.append(("state", sig,
                                         {"step": i, "obj": j, "real": repr(snapshot(reals[j]))[:150], "twin": repr(snapshot(twin_objs[j]))[:150]}))
                        return
            out["done"] = True
        t = p.run(driver)
        if t.exc is not None:
            problems.append(("harness", type(t.exc).__name__, (t.exc_tb or "")[-400:]))
        if p.k.deadlock:
            problems.append(("hang", "operation on a proxy never returned", p.k.deadlock))
    for o in reals + twin_objs:
        if isinstance(o, io.BytesIO):
            o.close()
    kinds = set(s[0] for s in steps)
    rec.case(case, muts >= 1 and errors >= 1, ["config:" + cfg] + ["op:" + k_ for k_ in kinds] +
             ["target:" + KINDS[s[1] % len(KINDS)] for s in steps[:6]])
    return [Failure(cl, key, case, det) for cl, key, det in problems[:2]]


# ---- generator ------------------------------------------------------------------------------------------------------
def _no_fset(spec):
    # a frozenset rebuilt at the peer may iterate in another order: order of set iteration is not a property of rpyc
    if spec[0] == "fset":
        return False
    if spec[0] in ("tuple",):
        return all(_no_fset(s) for s in spec[1])
    if spec[0] == "tuplerep":
        return _no_fset(spec[1])
    if spec[0] == "slice":
        return all(_no_fset(s) for s in spec[1:])
    return True


_small = vals.immutables(big=False, surrogates=False, max_leaves=3).filter(_no_fset)
_int = st.integers(-3, 12).map(lambda n: ["int", str(n)])
_key = st.one_of(_int, _int, st.sampled_from([["str", "a"], ["none"], ["slice", ["int", "0"], ["int", "2"], ["none"]], ["slice", ["none"], ["none"], ["int", "-1"]],
                                               ["float", "3ff8000000000000"], ["slice", ["int", "1"], ["none"], ["none"]]]))


def operand():
    return st.one_of(_small.map(lambda s: ["v", s]), _int.map(lambda s: ["v", s]), _int.map(lambda s: ["v", s]),
                     st.integers(0, 16).map(lambda i: ["h", i]))


def steps():
    h = st.integers(0, 31)
    opnd = operand()

    def method_step(i):
        kind = KINDS[i % len(KINDS)]
        table = METHODS.get(kind) or [("missing_method", 0)]
        return st.sampled_from(table).flatmap(lambda m: st.tuples(st.just("method"), st.just(i), st.just(m[0]), st.lists(opnd, min_size=m[1], max_size=m[1]),
                                                                  st.just([]) if kind != "vec" else st.lists(st.tuples(st.sampled_from(["k", "offset"]), _int.map(lambda s: ["v", s])).map(list), max_size=2, unique_by=lambda t: t[0])))
    simple = st.one_of(
        st.tuples(st.just("getattr"), h, st.sampled_from(ATTRS)), st.tuples(st.just("setattr"), h, st.sampled_from([a for a in ATTRS if a != "__doc__"]), opnd),
        st.tuples(st.just("delattr"), h, st.sampled_from([a for a in ATTRS if a != "__doc__"])),
        st.tuples(st.just("binop"), h, st.sampled_from(sorted(OPS2)), opnd, st.booleans()), st.tuples(st.just("iop"), h, st.sampled_from(sorted(IOPS)), opnd),
        st.tuples(st.just("unop"), h, st.sampled_from(sorted(UOPS))), st.tuples(st.just("cmp"), h, st.sampled_from(sorted(CMPS)), opnd),
        st.tuples(st.just("cmp_self"), h, st.sampled_from(["eq", "ne", "eq", "le"])),
        st.tuples(st.just("getitem"), h, _key.map(lambda s: ["v", s])), st.tuples(st.just("setitem"), h, _key.map(lambda s: ["v", s]), opnd),
        st.tuples(st.just("delitem"), h, _key.map(lambda s: ["v", s])), st.tuples(st.just("contains"), h, opnd),
        st.tuples(st.just("iter_all"), h), st.tuples(st.just("iter"), h), st.tuples(st.just("next"), h),
        st.tuples(st.just("buffiter"), h, st.integers(1, 5), st.integers(1, 6), st.sampled_from([1, 2, 3])),
        st.tuples(st.just("buffiter"), st.sampled_from([16, 14, 8, 10]), st.sampled_from([1, 7, 1001, 1500]), st.sampled_from([3, 1000, 1500, 2000]),
                  st.sampled_from([1, 2])),
        st.tuples(st.sampled_from(["len", "str", "repr", "hash", "bool", "dir", "class"]), h),
        st.tuples(st.just("format"), h, st.sampled_from(["", "x", ">5"])), st.tuples(st.just("isinstance"), h, st.sampled_from(["list", "dict", "vec", "int", "deque", "object"])),
        st.tuples(st.just("call"), h, st.lists(opnd, max_size=2), st.lists(st.tuples(st.sampled_from(["k", "z"]), opnd).map(list), max_size=1)),
        st.tuples(st.just("with"), h, st.sampled_from(["plain", "raise-suppressed", "raise-propagated"])),
    ).map(list)
    meth = h.flatmap(method_step).map(list)
    # constructive fragments on the harness-class instances (world slots 6, 7, 11):
    #  - state-dependent results asked twice with a state change in between (hash / len / str / bool / repr of one proxy)
    #  - ordering where only the OTHER operand's reflected method can answer (Vec defines just __lt__: a > b needs b.__lt__(a))
    vec = st.sampled_from([6, 7, 11])
    ask = st.sampled_from(["hash", "len", "str", "bool", "repr"])
    mutate = st.one_of(st.tuples(st.just("method"), vec, st.just("scale"), st.just([["v", ["int", "3"]]]), st.just([])).map(list),
                       st.tuples(st.just("setattr"), vec, st.just("xs"), st.just(["v", ["tuple", [["int", "7"], ["int", "8"]]]])).map(list))
    twice = st.tuples(vec, ask, mutate).map(lambda t: [[t[1], t[0]], [t[2][0], t[0]] + t[2][2:], [t[1], t[0]]])
    reflected = st.tuples(vec, st.sampled_from(["gt", "ge", "le", "lt"]), vec).map(lambda t: [["cmp", t[0], t[1], ["h", t[2]]]])
    plain = st.lists(st.one_of(simple, simple, meth), min_size=1, max_size=25)
    #  - comparison of an object whose __eq__/__ne__ is neither reflexive nor boolean with ITSELF (world slot 15)
    weird = st.sampled_from([[["cmp_self", 15, "eq"]], [["cmp_self", 15, "ne"]], [["cmp", 15, "eq", ["h", 15]]], [["cmp", 15, "ne", ["h", 15]]]])
    #  - results and exceptions whose class merely DERIVES from a plain one (tuple subclass instance, data-less StopIteration subclass)
    derived = st.tuples(vec, st.sampled_from(["exhaust", "pair"])).map(lambda t: [["method", t[0], t[1], [], []]])
    frag = st.one_of(twice, reflected, weird, derived)
    return st.one_of(plain, plain, st.tuples(st.lists(st.one_of(simple, meth), max_size=6), frag, st.lists(st.one_of(simple, meth), max_size=6)).map(
        lambda t: t[0] + t[1] + t[2]))


def cases():
    return st.fixed_dictionaries({"config": st.sampled_from(["classic", "classic", "public", "default"]), "steps": steps()})


def plan(tier, scale):
    n, sh = (80, 12) if tier == "quick" else (2500, 14)
    return [{"part": "histories", "n": int(n * scale)} for _ in range(sh)]


def run_shard(desc, seed, rec, tier):
    drive(rec, cases(), lambda c: check(c, rec), desc["n"], seed)


def replay(case, rec):
    return check(case, rec)
