"""C03 - immutable values travel by copy, everything else by reference; identity survives."""
import gc

from hypothesis import strategies as st

from vlib import vals
from vlib.hyp import drive
from vlib.pair import Pair, is_netref
from vlib.runner import Failure

ID = "C03"
LEVEL = "exploration"
RULE = ("(a) single values from immutables ∪ non-dumpables (subclass instances, containers, functions, classes, modules, "
        "buried in tuples/kwargs): the peer reports what it received; oracle written from the statement (plain(v) ⇒ equal "
        "value of exactly the same type, exact tuple ⇒ elementwise, anything else ⇒ a proxy), echo returns an equal value "
        "/ the original object. (b) histories over a pool of owner objects: send (alone, nested in tuples, as kwarg), "
        "receive again while held, echo back, drop + gc, re-send, mutate through the proxy, against a model of which slot "
        "holds which object. (c) obtain/deliver under classic services: equal, independent copies. non-trivial = composite "
        "or subclass value, or a history with an echo or a re-receive. distinct by case hash.")
ASSUMPTIONS = ["a second copy of a reference arriving while the first proxy is still being constructed is C10's business"]


def peer_desc(x):
    """what the receiving side sees (returned by value as nested tuples)"""
    if is_netref(x):
        return ("ref",)
    if vals.plain(x):
        return ("val", type(x).__name__, vals.canon(x))
    if type(x) is tuple:
        return ("tuple",) + tuple(peer_desc(e) for e in x)
    return ("copied-nonplain", type(x).__name__)


def expected_desc(v):
    if vals.plain(v):
        return ("val", type(v).__name__, vals.canon(v))
    if type(v) is tuple:
        return ("tuple",) + tuple(expected_desc(e) for e in v)
    return ("ref",)


def make_service():
    import rpyc

    class PeerService(rpyc.Service):
        def __init__(self):
            self.slots = {}

        def exposed_info(self, *args, **kwargs):
            return (tuple(peer_desc(a) for a in args), tuple(sorted((k, peer_desc(v)) for k, v in kwargs.items())))

        def exposed_echo(self, x):
            return x

        def exposed_store(self, slot, x):
            same = slot in self.slots and self.slots[slot] is x
            self.slots[slot] = x
            return same

        def exposed_store_nested(self, slot, t):
            x = t
            while type(x) is tuple:
                x = x[-1]
            return self.exposed_store(slot, x)

        def exposed_store_kw(self, slot, obj=None):
            return self.exposed_store(slot, obj)

        def exposed_is_same(self, slot, x):
            return self.slots.get(slot) is x

        def exposed_give(self, slot):
            return self.slots[slot]

        def exposed_give_nested(self, slot):
            return (1, (self.slots[slot], "x"))

        def exposed_drop(self, slot):
            self.slots.pop(slot, None)
            gc.collect()

        def exposed_mutate(self, slot, v):
            p = self.slots[slot]
            cls = p.__class__
            if cls is list:
                p += (v,)
            elif cls is dict:
                p["m"] = v
            elif cls is set:
                p |= frozenset([v]) if vals.plain(v) and _hashable(v) else frozenset(["h"])
            elif cls is bytearray:
                p += b"z"
            else:
                return False
            return True

        def exposed_probe(self, slot):
            p = self.slots[slot]
            cls = p.__class__
            if cls is list:
                return ("list",) + tuple(peer_desc(e) for e in p)
            if cls is dict:
                return ("dict", len(p))
            if cls is set:
                return ("set", len(p))
            if cls is bytearray:
                return ("bytearray", len(p))
            return ("other", len(p) if hasattr(p, "__len__") else -1)
    return PeerService()


def _hashable(v):
    try:
        hash(v)
        return True
    except TypeError:
        return False


# ---- (a) single values ---------------------------------------------------------------------------------------
def check_value(case, rec):
    import rpyc
    spec, how = case["spec"], case["how"]
    v = vals.build(spec)
    classes = set(c for c in vals.spec_classes(spec) if c.startswith(("tag:", "sub:")))
    classes.add("how:" + how)
    nontrivial = vals.is_composite(spec) or spec[0] == "sub" or not vals.plain(v)
    rec.case(case, nontrivial, classes)
    fails = []
    out = {}
    with Pair(rpyc.VoidService, make_service()) as p:
        def driver():
            root = p.a.root
            if how == "arg":
                out["seen"] = root.info(v)[0][0]
            elif how == "kwarg":
                out["seen"] = root.info(key=v)[1][0][1]
            else:
                out["seen"] = root.info((0, (v,)))[0][0]
            out["echo"] = root.echo(v)
        t = p.run(driver)
        if t.exc is not None:
            fails.append(Failure("transfer-raised", type(t.exc).__name__, case, t.exc_tb[-300:]))
        elif p.k.deadlock:
            fails.append(Failure("deadlock", "value transfer", case, p.k.deadlock))
        else:
            want = expected_desc((0, (v,)) if how == "nested" else v)
            if out["seen"] != want:
                fails.append(Failure(_clause(want), _key(out["seen"], want), case, out["seen"], want))
            e = out["echo"]
            if vals.plain(v):
                if not vals.same(e, v):
                    fails.append(Failure("echo-value", type(e).__name__, case, vals.describe(e), vals.describe(v)))
            elif type(v) is tuple:
                if type(e) is not tuple or len(e) != len(v) or not _echo_tuple_ok(e, v):
                    fails.append(Failure("echo-tuple", "structure or identity", case, repr(e)[:100]))
            elif e is not v:
                fails.append(Failure("echo-identity", "reference handed back is not the original object", case,
                                     type(e).__name__))
    return fails


def _echo_tuple_ok(e, v):
    for x, y in zip(e, v):
        if vals.plain(y):
            if not vals.same(x, y):
                return False
        elif type(y) is tuple:
            if type(x) is not tuple or len(x) != len(y) or not _echo_tuple_ok(x, y):
                return False
        elif x is not y:
            return False
    return True


def _clause(want):
    return "by-value" if want[0] == "val" else ("by-reference" if want[0] == "ref" else "tuple-elementwise")


def _key(seen, want):
    if want[0] == "val" and seen[0] == "val":
        return "type:%s-arrived-as-%s" % (want[1], seen[1]) if seen[1] != want[1] else "value-changed:%s" % want[1]
    return "%s-arrived-as-%s" % (want[0], seen[0])


# ---- (b) histories --------------------------------------------------------------------------------------------
POOL = [["list", [["int", "1"]]], ["dict", []], ["set", []], ["bytearray", "6162"], ["obj"], ["sub", "intsub", ["int", "5"]],
        ["sub", "namedtuple", ["none"]], ["func"]]


def check_history(case, rec):
    import rpyc
    steps = case["steps"]
    kinds = set(s[0] for s in steps)
    nontrivial = bool(kinds & {"echo", "resend", "echo_nested"})
    rec.case(case, nontrivial, ["hist:" + k for k in kinds])
    fails = []
    pool = [vals.build(s) for s in POOL]
    with Pair(rpyc.VoidService, make_service()) as p:
        problems = []

        def driver():
            root = p.a.root
            model = {}           # slot -> pool index
            mutation_no = [0]
            for st_ in steps:
                op, slot, k = st_[0], st_[1] % 3, st_[2] % len(pool)
                obj = pool[k]
                if op in ("send", "send_nested", "send_kw", "resend"):
                    if op == "send_nested":
                        same = root.store_nested(slot, (1, ("a", obj)))
                    elif op == "send_kw":
                        same = root.store_kw(slot, obj=obj)
                    else:
                        same = root.store(slot, obj)
                    want = model.get(slot) == k
                    if bool(same) != want:
                        problems.append(("same-proxy", "second receipt while held %s the held proxy" %
                                         ("is not" if want else "claims to be"), [op, slot, k]))
                    model[slot] = k
                elif op == "cmp":
                    if slot in model:
                        same = root.is_same(slot, obj)
                        if bool(same) != (model[slot] == k):
                            problems.append(("same-proxy", "identity of proxies for %s objects" %
                                             ("equal" if model[slot] == k else "different"), [op, slot, k]))
                elif op in ("echo", "echo_nested"):
                    if slot in model:
                        got = root.give(slot) if op == "echo" else root.give_nested(slot)[1][0]
                        if got is not pool[model[slot]]:
                            problems.append(("echo-identity", "reference handed back is not the original object",
                                             [op, slot, model[slot], type(got).__name__]))
                elif op == "drop":
                    root.drop(slot)
                    model.pop(slot, None)
                elif op == "mutate":
                    if slot in model:
                        tgt = pool[model[slot]]
                        before = _snap(tgt)
                        mutation_no[0] += 1
                        did = root.mutate(slot, 1000 + mutation_no[0])     # a fresh value every time: the change is always visible
                        if did and _snap(tgt) == before:
                            problems.append(("mutation-visible", "change through the reference did not reach the owner",
                                             [slot, model[slot]]))
                        if not did and _snap(tgt) != before:
                            problems.append(("mutation-visible", "unexpected change", [slot, model[slot]]))
                elif op == "probe":
                    if slot in model:
                        tgt = pool[model[slot]]
                        got = root.probe(slot)
                        if type(tgt) is list and got != ("list",) + tuple(peer_desc(e) for e in tgt):
                            problems.append(("probe", "proxy shows other content than the owner's object", got))
                elif op == "gc":
                    gc.collect()
        t = p.run(driver)
        if t.exc is not None:
            fails.append(Failure("history-raised", type(t.exc).__name__, case, t.exc_tb[-400:]))
        elif p.k.deadlock:
            fails.append(Failure("deadlock", "history", case, p.k.deadlock))
        for cl, key, det in problems[:3]:
            fails.append(Failure(cl, key, case, det))
    return fails


def _holds_refs(x):
    if is_netref(x):
        return True
    if type(x) in (tuple, list):
        return any(_holds_refs(e) for e in x)
    return False


def _snap(o):
    if type(o) in (list, dict, set, bytearray):
        return repr(o)
    return None


# ---- (c) obtain / deliver ---------------------------------------------------------------------------------------
def check_copy(case, rec):
    import rpyc
    from rpyc.utils import classic
    spec = case["spec"]
    rec.case(case, True, ["copy:" + case["op"], "tag:" + spec[0]])
    fails = []
    with Pair(rpyc.ClassicService, rpyc.ClassicService, connect_in_tasks=True) as p:
        out = {}

        def driver():
            conn = p.a
            if case["op"] == "obtain":
                conn.execute("import sys; sys.path[:0] = %r" % (list(__import__('sys').path[:3]),))
                conn.execute("from vlib import vals as _v")
                conn.namespace["spec"] = spec      # by value? a list goes by reference: build remotely from repr
                conn.execute("target = _v.build(%r)" % (spec,))
                proxy = conn.namespace["target"]
                out["proxy_is_ref"] = is_netref(proxy)
                copy = classic.obtain(proxy)
                out["copy_type"] = type(copy)
                out["copy_is_ref"] = is_netref(copy)
                out["copy_holds_refs"] = _holds_refs(copy)
                out["base_repr"] = repr(copy)             # evaluated here: a proxy's repr needs the connection
                if type(copy) is list:
                    copy.append("local-change")
                elif type(copy) is dict:
                    copy["local-change"] = 1
                elif type(copy) is tuple and copy and type(copy[-1]) is list:
                    copy[-1].append("local-change")
                elif type(copy) is tuple and copy and is_netref(copy[-1]):
                    copy[-1].append("local-change")
                out["remote_after"] = conn.eval("repr(target)")
            else:
                obj = vals.build(spec)
                out["obj"] = obj
                r = classic.deliver(conn, obj)
                out["remote_is_ref"] = is_netref(r)
                out["remote_repr"] = conn.modules.builtins.repr(r)
                if type(obj) is list:
                    r.append("remote-change")
                elif type(obj) is dict:
                    r["remote-change"] = 1
                out["local_after"] = repr(obj)
        t = p.run(driver)
        v = vals.build(spec)
        if t.exc is not None:
            fails.append(Failure("copy-raised", type(t.exc).__name__, case, t.exc_tb[-300:]))
        elif case["op"] == "obtain":
            if out["copy_is_ref"] or out["copy_type"] is not type(v) or out["copy_holds_refs"]:
                fails.append(Failure("obtain", "not a local copy", case, out["copy_type"].__name__))
            else:
                if out["base_repr"] != repr(v):
                    fails.append(Failure("obtain", "copy differs from the target", case, out["base_repr"][:100], repr(v)[:100]))
            if out["remote_after"] != repr(v):
                fails.append(Failure("obtain", "changing the copy changed the target", case, out["remote_after"][:100]))
        else:
            if not out["remote_is_ref"] and type(v) is not tuple and not vals.plain(v):
                fails.append(Failure("deliver", "no remote object", case))
            if out["remote_repr"] != repr(v):
                fails.append(Failure("deliver", "remote copy differs", case, out["remote_repr"][:100], repr(v)[:100]))
            if out["local_after"] != repr(v):
                fails.append(Failure("deliver", "changing the remote copy changed the local object", case,
                                     out["local_after"][:100]))
    return fails


# ---- two hops: A lends to B, B hands the proxy on to C ------------------------------------------------------------------
def check_twohop(case, rec):
    import rpyc
    from rpyc.core.channel import Channel
    from vlib import simkernel as sk
    spec = case["spec"]
    v = vals.build(spec)
    rec.case(case, not vals.plain(v) or vals.is_composite(spec), ["twohop:" + case["op"], "tag:" + spec[0]])
    fails = []
    k = sk.Kernel()
    out = {}
    with k.installed():
        l1, l2 = sk.Link(k), sk.Link(k)
        holder = {}

        class C(rpyc.Service):
            def exposed_consume(self, op, x):
                if op == "info":
                    return peer_desc(x)
                if op == "echo":
                    return x
                if op == "mutate":
                    if x.__class__ is list:
                        x += ("far",)
                        return len(x)
                    return -1

        class B(rpyc.Service):
            def exposed_forward(self, op, x):
                return holder["b2"].root.consume(op, x)
        a1 = rpyc.VoidService()._connect(Channel(l1.a), {"sync_request_timeout": 60})
        b1 = B()._connect(Channel(l1.b), {"sync_request_timeout": 60})
        b2 = rpyc.VoidService()._connect(Channel(l2.a), {"sync_request_timeout": 60})
        c2 = C()._connect(Channel(l2.b), {"sync_request_timeout": 60})
        holder["b2"] = b2

        def serve(conn):
            try:
                conn.serve_all()
            except sk.KernelAbort:
                raise
            except Exception:
                pass

        def driver():
            out["res"] = a1.root.forward(case["op"], v)
        k.spawn(serve, b1, name="serve-B1", daemon=True)
        k.spawn(serve, c2, name="serve-C2", daemon=True)
        t = k.spawn(driver, name="driver")
        k.run()
        if t.exc is not None:
            fails.append(Failure("twohop-raised", type(t.exc).__name__, case, (t.exc_tb or "")[-300:]))
        elif k.deadlock:
            fails.append(Failure("deadlock", "two hops", case, k.deadlock))
        else:
            r = out["res"]
            if case["op"] == "info":
                want = expected_desc(v)
                if r != want:
                    fails.append(Failure("twohop-" + _clause(want), _key(r, want), case, r, want))
            elif case["op"] == "echo":
                if vals.plain(v):
                    if not vals.same(r, v):
                        fails.append(Failure("twohop-echo-value", type(r).__name__, case, vals.describe(r), vals.describe(v)))
                elif type(v) is tuple:
                    if type(r) is not tuple or len(r) != len(v) or not _echo_tuple_ok(r, v):
                        fails.append(Failure("twohop-echo-tuple", "structure or identity", case))
                elif r is not v:
                    fails.append(Failure("twohop-echo-identity", "reference returned through two hops is not the original object", case,
                                         type(r).__name__))
            elif case["op"] == "mutate" and type(v) is list:
                if r != len(v) or v[-1:] != ["far"]:
                    fails.append(Failure("twohop-mutation", "change made two hops away did not reach the owner", case, [r, v[-2:]]))
        for cn in (a1, b1, b2, c2):
            cn._closed = True
    return fails


COPYABLE = [["list", [["int", "1"], ["str", "a"]]], ["list", []], ["dict", [[["str", "k"], ["int", "1"]]]], ["set", []],
            ["bytearray", "6162"], ["tuple", [["int", "1"], ["list", [["int", "2"]]]]], ["sub", "namedtuple", ["none"]],
            ["exc"], ["range"]]


def plan(tier, scale):
    if tier == "quick":
        nv, nh, nc, sh = 180, 60, 12, 8
    else:
        nv, nh, nc, sh = 5000, 1200, 200, 12
    out = [{"part": "values", "n": int(nv * scale)} for _ in range(sh)]
    out += [{"part": "histories", "n": int(nh * scale)} for _ in range(sh)]
    out += [{"part": "copies", "n": int(nc * scale)} for _ in range(2)]
    out += [{"part": "twohop", "n": int((60 if tier == "quick" else 1500) * scale)} for _ in range(3)]
    return out


def value_cases():
    spec = st.one_of(vals.immutables(max_leaves=6), vals.non_dumpables(max_leaves=5), vals.non_dumpables(max_leaves=5))
    return st.fixed_dictionaries({"part": st.just("values"), "spec": spec, "how": st.sampled_from(["arg", "kwarg", "nested"])})


def history_cases():
    step = st.tuples(st.sampled_from(["send", "send", "send_nested", "send_kw", "resend", "cmp", "echo", "echo_nested",
                                      "drop", "mutate", "probe", "gc"]), st.integers(0, 2), st.integers(0, len(POOL) - 1)).map(list)
    return st.fixed_dictionaries({"part": st.just("histories"), "steps": st.lists(step, min_size=2, max_size=14)})


def copy_cases():
    return st.fixed_dictionaries({"part": st.just("copies"), "op": st.sampled_from(["obtain", "deliver"]),
                                  "spec": st.sampled_from(COPYABLE)})


def twohop_cases():
    spec = st.one_of(vals.immutables(big=False, max_leaves=4), vals.non_dumpables(max_leaves=4), st.sampled_from([["list", []], ["list", [["int", "1"]]]]))
    return st.fixed_dictionaries({"part": st.just("twohop"), "spec": spec, "op": st.sampled_from(["info", "echo", "echo", "mutate"])})


def run_shard(desc, seed, rec, tier):
    if desc["part"] == "twohop":
        drive(rec, twohop_cases(), lambda c: check_twohop(c, rec), desc["n"], seed)
    elif desc["part"] == "values":
        drive(rec, value_cases(), lambda c: check_value(c, rec), desc["n"], seed)
    elif desc["part"] == "histories":
        drive(rec, history_cases(), lambda c: check_history(c, rec), desc["n"], seed)
    else:
        drive(rec, copy_cases(), lambda c: check_copy(c, rec), desc["n"], seed)


def replay(case, rec):
    return {"values": check_value, "histories": check_history, "copies": check_copy, "twohop": check_twohop}[case["part"]](case, rec)
