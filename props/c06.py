"""C06 - attribute access by the peer follows the connection's policy, and only its own."""
import itertools

from hypothesis import strategies as st

from vlib.hyp import drive
from vlib.runner import Failure

ID = "C06"
LEVEL = "exploration"
RULE = ("(a) decision grid, ENUMERATED: 2^7 attribute switches x exposed prefix {exposed_, x_, _e_, ''} x 14 name classes "
        "(prefixed existing/missing, safe-listed dunder and non-dunder, other dunder, _single, public, bare prefix, doubled "
        "prefix, non-ASCII, bytes valid/invalid UTF-8, int/None/tuple/float) x object shape (has name / twin / both / neither) "
        "x operation (get, set, delete, call-by-name and the indirect routes cmp / oldslicing / ctxexit), executed through "
        "the real handler table of a real Connection; plus objects with each subset of their own hooks, restricted() views "
        "and Service instances. oracle = decision function transcribed from the statement, observed by EFFECT (distinct "
        "sentinels per slot; full state snapshot unchanged on denial). (b) the same decisions end-to-end through netrefs "
        "(Hypothesis sample), and through a FORWARDED proxy: a third party owns the object and lets the middle party do anything; "
        "the middle party hands its proxy on over a connection with the generated configuration, which alone decides. (c) isolation: Hypothesis histories of open/probe/close over up to 5 differently configured "
        "connections incl. SlaveService; every probe must follow that connection's own configuration and DEFAULT_CONFIG "
        "(with safe_attrs) and the caller's dict must stay untouched. every enumerated combination is distinct; "
        "non-trivial = decided by more than the operation switch alone.")
ASSUMPTIONS = ["hasattr(obj, prefix+name) evaluating a twin property's getter is not counted as touching the object"]

SWITCHES = ["allow_safe_attrs", "allow_exposed_attrs", "allow_public_attrs", "allow_all_attrs", "allow_getattr",
            "allow_setattr", "allow_delattr"]
PREFIXES = ["exposed_", "x_", "_e_", ""]
OPS = ["get", "set", "del", "call", "cmp", "oldslice", "ctxexit"]


def name_classes(prefix):
    return [
        ("prefixed-existing", prefix + "foo"), ("prefixed-missing", prefix + "nope"), ("safe-dunder", "__len__"),
        ("safe-plain", "next"), ("other-dunder", "__secret__"), ("single-underscore", "_priv"), ("public", "foo"),
        ("bare-prefix", prefix), ("doubled-prefix", prefix + prefix + "foo"), ("non-ascii", "fóo"),
        ("prefix-inside", "_my" + prefix + "foo"), ("bytes-utf8", b"foo"), ("bytes-invalid", b"\xff\xfe"), ("int", 5), ("none", None), ("tuple", (1,)), ("float", 1.5),
    ]


class Sentinel(object):
    def __init__(self, slot):
        self.slot = slot

    def __call__(self, *a, **kw):
        return ("called", self.slot)

    def __repr__(self):
        return "<S %s>" % self.slot


def text_of(name):
    if type(name) is bytes:
        return name.decode("utf8", "replace")
    return name


def model(cfg, op, name, has_name, has_twin, hooks=()):
    """-> ("TypeError",) | ("some-exception",) | ("hook", op) | ("deny",) | ("access", resolved_name)"""
    if type(name) is bytes:
        try:
            name = name.decode("utf8")
        except UnicodeDecodeError:
            return ("some-exception",)
    elif type(name) is not str:
        return ("TypeError",)
    base_op = {"call": "get", "cmp": "get", "oldslice": "get", "ctxexit": "get"}.get(op, op)
    if base_op in hooks:
        return ("hook", base_op)
    if not cfg["allow_%sattr" % base_op]:
        return ("deny",)
    prefix = cfg["exposed_prefix"]
    allowed = (cfg["allow_all_attrs"] or (cfg["allow_exposed_attrs"] and name.startswith(prefix))
               or (cfg["allow_safe_attrs"] and name in cfg["safe_attrs"])
               or (cfg["allow_public_attrs"] and not name.startswith("_")))
    twin = bool(cfg["allow_exposed_attrs"] and has_twin)
    if not allowed and not twin:
        return ("deny",)
    if allowed and (not twin or has_name):
        return ("access", name)
    return ("access", prefix + name)


class DummyChannel(object):
    closed = False

    def close(self):
        self.closed = True

    def send(self, data):
        pass

    def poll(self, t):
        return False

    def fileno(self):
        return 0


def make_conn(cfg, service=None):
    import rpyc
    conn = rpyc.Connection(service or rpyc.VoidService(), DummyChannel(), cfg)
    return conn


def build_victim(name, prefix, has_name, has_twin, on_class, hooks=(), hooklog=None):
    """object whose candidate slots hold distinct sentinels; for cmp the slots live on the class"""
    ns = {}
    slots = {}
    t = text_of(name) if type(name) in (str, bytes) else None
    if type(name) is bytes:
        try:
            name.decode("utf8")
        except UnicodeDecodeError:
            t = None
    wanted = []
    if t is not None:
        if has_name:
            wanted.append(t)
        if has_twin:
            wanted.append(prefix + t)
    wanted += ["other_public", prefix + "other", "_other_private"]
    if "get" in hooks:
        ns["_rpyc_getattr"] = lambda self, n: hooklog.append(("get", n)) or ("hook-get", n)
    if "set" in hooks:
        ns["_rpyc_setattr"] = lambda self, n, v: hooklog.append(("set", n))
    if "del" in hooks:
        ns["_rpyc_delattr"] = lambda self, n: hooklog.append(("del", n))
    if on_class:
        for w in wanted:
            if w:
                s = Sentinel(w)
                slots[w] = s
                ns[w] = (lambda s_: (lambda self, other=None, *a: ("called", s_.slot)))(s)
    V = type("Victim", (object,), ns)
    v = V()
    if not on_class:
        for w in wanted:
            if w:
                s = Sentinel(w)
                slots[w] = s
                v.__dict__[w] = s
    return v, slots


def snapshot(v, on_class):
    d = dict(v.__dict__)
    if on_class:
        d.update((k, x) for k, x in type(v).__dict__.items() if not k.startswith("__") or k in ("__len__", "__secret__"))
    return d


def run_op(conn, consts, op, victim, name):
    H = conn._HANDLERS
    marker = Sentinel("written")
    if op == "get":
        return H[consts.HANDLE_GETATTR](conn, victim, name), marker
    if op == "set":
        return H[consts.HANDLE_SETATTR](conn, victim, name, marker), marker
    if op == "del":
        return H[consts.HANDLE_DELATTR](conn, victim, name), marker
    if op == "call":
        return H[consts.HANDLE_CALLATTR](conn, victim, name, (), ()), marker
    if op == "cmp":
        return H[consts.HANDLE_CMP](conn, victim, 7, name), marker
    if op == "oldslice":
        return H[consts.HANDLE_OLDSLICING](conn, victim, name, "zz_missing_fallback", 1, 2, ()), marker
    if op == "ctxexit":
        return H[consts.HANDLE_CTXEXIT](conn, victim, None), marker
    raise ValueError(op)


def evaluate(cfg, op, ncls, name, has_name, has_twin, hooks, conn, consts, rec, case):
    """execute one grid point, compare with the model, return [Failure]"""
    on_class = op == "cmp"
    hooklog = []
    victim, slots = build_victim(name, cfg["exposed_prefix"], has_name, has_twin, on_class, hooks, hooklog)
    exp = model(cfg, op, name, has_name, has_twin, hooks)
    before = snapshot(victim, on_class)
    try:
        res, marker = run_op(conn, consts, op, victim, name)
        got = ("returned", res)
    except AttributeError:
        got = ("AttributeError",)
    except TypeError:
        got = ("TypeError",)
    except Exception as ex:
        got = ("exc", type(ex).__name__)
    after = snapshot(victim, on_class)
    changed = sorted(k for k in set(before) | set(after) if before.get(k) is not after.get(k))
    fails = []

    def bad(clause, key, obs, expd):
        fails.append(Failure(clause, "%s/%s/%s" % (op, ncls, key), case, obs, expd))

    if exp[0] == "TypeError" and op == "oldslice":
        # this route swallows the first failure by design and retries with the fallback name (which is missing here)
        if got[0] == "returned" or changed or hooklog:
            bad("non-text-name", "accepted", got[0], "exception")
    elif exp[0] == "TypeError":
        if got[0] != "TypeError" or changed or hooklog:
            bad("non-text-name", "not-TypeError", got[0], "TypeError")
    elif exp[0] == "some-exception":
        if got[0] == "returned" or changed or hooklog:
            bad("undecodable-name", "accepted", got[0], "exception")
    elif exp[0] == "hook":
        want_log = [(exp[1], text_of(name))]
        if hooklog != want_log or changed:
            bad("own-hook", "hook-not-deciding", [got[0], hooklog, changed], want_log)
        elif op == "get" and got != ("returned", ("hook-get", text_of(name))):
            bad("own-hook", "hook-result-not-returned", got[0], "hook result")
    elif exp[0] == "deny":
        if got[0] != "AttributeError":
            bad("denied-access", "%s-instead-of-AttributeError" % got[0], got[0], "AttributeError")
        if changed:
            bad("denied-access", "had-an-effect", changed, [])
    else:
        resolved = exp[1]
        exists = resolved in slots
        if op in ("get", "call", "cmp", "oldslice", "ctxexit"):
            if changed:
                bad("read-access", "had-an-effect", changed, [])
            if not exists:
                if got[0] not in ("AttributeError",) and not (op == "oldslice" and got[0] == "AttributeError"):
                    bad("read-access", "missing-attribute-did-not-raise-AttributeError", got[0], "AttributeError")
            else:
                if op == "get":
                    ok = got[0] == "returned" and got[1] is slots[resolved]
                else:
                    ok = got == ("returned", ("called", resolved))
                if not ok:
                    which = "wrong-attribute" if got[0] == "returned" else "allowed-name-refused"
                    bad("read-access", which, repr(got)[:80], resolved)
        elif op == "set":
            if got[0] != "returned":
                bad("write-access", "allowed-name-refused", got[0], resolved)
            elif changed != [resolved] or after.get(resolved) is not marker:
                bad("write-access", "wrong-slot-written", changed, [resolved])
        elif op == "del":
            if not exists:
                if got[0] != "AttributeError" or changed:
                    bad("delete-access", "missing-attribute", [got[0], changed], "AttributeError")
            elif got[0] != "returned" or changed != [resolved] or resolved in after:
                bad("delete-access", "wrong-slot-deleted" if got[0] == "returned" else "allowed-name-refused",
                    [got[0], changed], [resolved])
    return fails


def cfg_of(bits, prefix, DEFAULT):
    cfg = dict(DEFAULT)
    for i, sw in enumerate(SWITCHES):
        cfg[sw] = bool(bits >> i & 1)
    cfg["exposed_prefix"] = prefix
    return cfg


def grid(rec, prefixes, bit_values, ops=OPS):
    from rpyc.core import consts
    from rpyc.core.protocol import DEFAULT_CONFIG
    n = 0
    for prefix in prefixes:
        names = name_classes(prefix)
        for bits in bit_values:
            over = dict((sw, bool(bits >> i & 1)) for i, sw in enumerate(SWITCHES))
            over["exposed_prefix"] = prefix
            conn = make_conn(over)
            cfg = cfg_of(bits, prefix, DEFAULT_CONFIG)
            for op in ops:
                base_op = {"call": "get", "cmp": "get", "oldslice": "get", "ctxexit": "get"}.get(op, op)
                for ncls, name in (names if op != "ctxexit" else [("exit-dunder", "__exit__")]):
                    for has_name, has_twin in ((0, 0), (0, 1), (1, 0), (1, 1)):
                        case = {"part": "grid", "bits": bits, "prefix": prefix, "op": op, "name_class": ncls,
                                "has_name": has_name, "has_twin": has_twin, "hooks": []}
                        exp = model(cfg, op, name, has_name, has_twin)
                        nontrivial = cfg["allow_%sattr" % base_op] and exp[0] in ("deny", "access")
                        rec.case(case, nontrivial, ["op:" + op, "name:" + ncls, "expect:" + exp[0]])
                        n += 1
                        for f in rec.triage(evaluate(cfg, op, ncls, name, has_name, has_twin, (), conn, consts, rec, case)):
                            rec.violation(f)
            conn._closed = True
    return n


def hooks_grid(rec, bit_values):
    """objects with every subset of their own hooks, restricted views, Service instances"""
    import rpyc
    from rpyc.core import consts
    from rpyc.core.protocol import DEFAULT_CONFIG
    from rpyc.utils.helpers import restricted
    prefix = "exposed_"
    for bits in bit_values:
        over = dict((sw, bool(bits >> i & 1)) for i, sw in enumerate(SWITCHES))
        conn = make_conn(over)
        cfg = cfg_of(bits, prefix, DEFAULT_CONFIG)
        for r in range(1, 4):
            for hooks in itertools.combinations(("get", "set", "del"), r):
                for op in ("get", "set", "del", "call"):
                    for ncls, name in name_classes(prefix):
                        if ncls in ("tuple", "float", "doubled-prefix", "non-ascii"):
                            continue
                        case = {"part": "hooks", "bits": bits, "prefix": prefix, "op": op, "name_class": ncls,
                                "has_name": 1, "has_twin": 1, "hooks": list(hooks)}
                        rec.case(case, True, ["hooks:" + "+".join(hooks), "op:" + op])
                        fs = evaluate(cfg, op, ncls, name, 1, 1, hooks, conn, consts, rec, case) if op != "call" or "get" not in hooks \
                            else []
                        for f in rec.triage(fs):
                            rec.violation(f)
        # restricted views: exactly the listed names, for reading / writing separately; never deletion
        for attrs, wattrs in (({"a", "b"}, None), ({"a"}, {"b"}), ({"a", "b"}, ()), (set(), {"a"})):
            for name in ("a", "b", "c", "_p", "exposed_a"):
                for op in ("get", "set", "del"):
                    class Under(object):
                        pass
                    u = Under()
                    u.a, u.b, u.c, u._p, u.exposed_a = (Sentinel(x) for x in ("a", "b", "c", "_p", "exposed_a"))
                    view = restricted(u, attrs, wattrs)
                    before = dict(u.__dict__)
                    case = {"part": "restricted", "bits": bits, "attrs": sorted(attrs),
                            "wattrs": None if wattrs is None else sorted(wattrs), "name": name, "op": op}
                    rec.case(case, True, ["restricted:" + op])
                    try:
                        res, marker = run_op(conn, consts, op, view, name)
                        got = "returned"
                    except AttributeError:
                        got, res, marker = "AttributeError", None, None
                    except Exception as ex:
                        got, res, marker = type(ex).__name__, None, None
                    w = attrs if wattrs is None else wattrs
                    allowed = (op == "get" and name in attrs) or (op == "set" and name in w)
                    changed = sorted(k for k in set(before) | set(u.__dict__) if before.get(k) is not u.__dict__.get(k))
                    if allowed:
                        ok = got == "returned" and ((op == "get" and res is before[name] and not changed) or
                                                    (op == "set" and changed == [name]))
                    else:
                        ok = got == "AttributeError" and not changed
                    if not ok:
                        f = Failure("restricted-view", "%s/%s" % (op, "listed-name-refused" if allowed else "unlisted-name-served"),
                                    case, [got, changed])
                        for f2 in rec.triage([f]):
                            rec.violation(f2)
        # Service instances: reads by policy, writes and deletes always refused
        class Svc(rpyc.Service):
            def __init__(self):
                self.foo = Sentinel("foo")
                self.exposed_foo = Sentinel("exposed_foo")
        for op in ("set", "del"):
            for name in ("foo", "exposed_foo", "bar"):
                s = Svc()
                before = dict(s.__dict__)
                case = {"part": "service", "bits": bits, "op": op, "name": name}
                rec.case(case, True, ["service:" + op])
                try:
                    run_op(conn, consts, op, s, name)
                    got = "returned"
                except AttributeError:
                    got = "AttributeError"
                except Exception as ex:
                    got = type(ex).__name__
                if got != "AttributeError" or s.__dict__ != before:
                    for f2 in rec.triage([Failure("service-object", "%s-not-refused" % op, case, got)]):
                        rec.violation(f2)
        conn._closed = True


# ---- (b) end to end through netrefs -------------------------------------------------------------------------------
def check_wire(case, rec):
    import rpyc
    from rpyc.core.protocol import DEFAULT_CONFIG
    from vlib.pair import Pair
    bits, prefix, op, ni, has_name, has_twin = (case["bits"], case["prefix"], case["op"], case["name_index"],
                                                case["has_name"], case["has_twin"])
    names = [(c, n) for c, n in name_classes(prefix) if type(n) is str and n]
    ncls, name = names[ni % len(names)]
    cfg = cfg_of(bits, prefix, DEFAULT_CONFIG)
    exp = model(cfg, op, name, has_name, has_twin)
    rec.case(case, exp[0] in ("deny", "access") and cfg["allow_%sattr" % {"call": "get"}.get(op, op)],
             ["wire-op:" + op, "name:" + ncls, "expect:" + exp[0]])
    victim, slots = build_victim(name, prefix, has_name, has_twin, False)
    marker_token = "written-%d" % bits

    class Holder(rpyc.Service):
        def exposed_victim(self):
            return victim
    over = dict((sw, bool(bits >> i & 1)) for i, sw in enumerate(SWITCHES))
    over["exposed_prefix"] = prefix
    out = {}
    with Pair(rpyc.VoidService, Holder(), {}, over) as p:
        def driver():
            # the root is fetched by handler call; the victim arrives as a netref
            v = p.a.sync_request(rpyc.core.consts.HANDLE_CALLATTR, p.a.sync_request(rpyc.core.consts.HANDLE_GETROOT),
                                 prefix + "victim" if cfg["allow_exposed_attrs"] and cfg["allow_getattr"] else "exposed_victim", (), ())
            try:
                if op == "get":
                    r = getattr(v, name)
                    out["res"] = ("returned", p.resolve(r))
                elif op == "set":
                    setattr(v, name, marker_token)
                    out["res"] = ("returned", None)
                elif op == "del":
                    delattr(v, name)
                    out["res"] = ("returned", None)
                else:
                    r = getattr(v, name)()
                    out["res"] = ("returned", r)
            except AttributeError:
                out["res"] = ("AttributeError",)
            except Exception as ex:
                out["res"] = ("exc", type(ex).__name__)
        before = dict(victim.__dict__)
        t = p.run(driver)
    if t.exc is not None:
        # could not even obtain the victim under this configuration: not a policy decision about `name`
        return []
    got = out.get("res", ("none",))
    after = dict(victim.__dict__)
    changed = sorted(k for k in set(before) | set(after) if before.get(k) is not after.get(k))
    fails = []
    key = "%s/%s" % (op, ncls)
    if exp[0] == "deny":
        if got[0] != "AttributeError" or changed:
            fails.append(Failure("wire-denied-access", key, case, [got[0], changed]))
    elif exp[0] == "access":
        resolved = exp[1]
        exists = resolved in slots
        if op == "get":
            ok = (got[0] == "returned" and got[1] is slots[resolved]) if exists else got[0] == "AttributeError"
            ok = ok and not changed
        elif op == "call":
            ok = (got[0] == "returned" and tuple(got[1]) == ("called", resolved)) if exists else got[0] == "AttributeError"
        elif op == "set":
            ok = got[0] == "returned" and changed == [resolved] and after.get(resolved) == marker_token
        else:
            ok = (got[0] == "returned" and changed == [resolved] and resolved not in after) if exists else \
                (got[0] == "AttributeError" and not changed)
        if not ok:
            fails.append(Failure("wire-allowed-access", key, case, [repr(got)[:60], changed], resolved))
    return fails


def check_forwarded(case, rec):
    """three parties: C owns the victim and lets B do anything with it (classic-style); B hands ITS PROXY of the victim on to A over
    a connection with the generated configuration. What A may do by name is decided by the A-B configuration alone."""
    import rpyc
    from rpyc.core.channel import Channel
    from rpyc.core.protocol import DEFAULT_CONFIG
    from vlib import simkernel as sk
    bits, prefix, op, ni, has_name, has_twin = (case["bits"], case["prefix"], case["op"], case["name_index"],
                                                case["has_name"], case["has_twin"])
    names = [(c, n) for c, n in name_classes(prefix) if type(n) is str and n]
    ncls, name = names[ni % len(names)]
    cfg = cfg_of(bits, prefix, DEFAULT_CONFIG)
    exp = model(cfg, op, name, has_name, has_twin)
    rec.case(case, exp[0] in ("deny", "access") and cfg["allow_%sattr" % {"call": "get"}.get(op, op)],
             ["forwarded-op:" + op, "name:" + ncls, "expect:" + exp[0]])
    victim, slots = build_victim(name, prefix, has_name, has_twin, False)
    marker_token = "written-%d" % bits
    over = dict((sw, bool(bits >> i & 1)) for i, sw in enumerate(SWITCHES))
    over["exposed_prefix"] = prefix
    over["sync_request_timeout"] = 60
    # C resolves names literally (no twin mapping of its own), so that every decision observed is B's
    anything = dict(allow_all_attrs=True, allow_setattr=True, allow_delattr=True, allow_getattr=True, allow_exposed_attrs=False,
                    sync_request_timeout=60)
    holder = {}
    out = {}
    k = sk.Kernel()
    with k.installed():
        l1, l2 = sk.Link(k), sk.Link(k)

        class Owner(rpyc.Service):
            def exposed_victim(self):
                return victim

        taken = {}

        class Taker(rpyc.Service):
            def exposed_take(self, v):
                taken["v"] = v
        a1 = Taker()._connect(Channel(l1.a), {"sync_request_timeout": 60})
        b1 = rpyc.VoidService()._connect(Channel(l1.b), over)
        b2 = rpyc.VoidService()._connect(Channel(l2.a), {"sync_request_timeout": 60})
        c2 = Owner()._connect(Channel(l2.b), anything)
        holder["b2"] = b2

        def serve(conn):
            try:
                conn.serve_all()
            except sk.KernelAbort:
                raise
            except Exception:
                pass

        def pusher():
            # the middle party hands its proxy of the victim on (so that obtaining it does not depend on the configuration)
            b1.root.take(holder["b2"].root.exposed_victim())

        def driver():
            while "v" not in taken:
                a1.serve(0.1)
            v = taken["v"]
            out["got-victim"] = True
            try:
                if op == "get":
                    getattr(v, name)
                elif op == "set":
                    setattr(v, name, marker_token)
                elif op == "del":
                    delattr(v, name)
                else:
                    getattr(v, name)()
                out["res"] = ("returned",)
            except AttributeError:
                out["res"] = ("AttributeError",)
            except Exception as ex:
                out["res"] = ("exc", type(ex).__name__)
        before = dict(victim.__dict__)
        k.spawn(serve, b1, name="serve-B1", daemon=True)
        k.spawn(serve, c2, name="serve-C2", daemon=True)
        k.spawn(pusher, name="pusher", daemon=True)
        t = k.spawn(driver, name="driver")
        k.run()
        for c_ in (a1, b1, b2, c2):
            c_._closed = True
    if not out.get("got-victim"):
        rec.count("forwarded: victim not obtainable under this configuration")
        return []           # could not even obtain the victim under this configuration: not a policy decision about `name`
    rec.count("forwarded: decisions judged")
    if k.deadlock:
        return [Failure("deadlock", "forwarded", case, k.deadlock)]
    got = out.get("res", ("none",))
    after = dict(victim.__dict__)
    changed = sorted(k_ for k_ in set(before) | set(after) if before.get(k_) is not after.get(k_) and before.get(k_) != after.get(k_))
    fails = []
    key = "%s/%s" % (op, ncls)
    if exp[0] == "deny":
        if got[0] != "AttributeError" or changed:
            fails.append(Failure("forwarded-denied-access", key, case, [got[0], changed]))
    elif exp[0] == "access":
        resolved = exp[1]
        exists = resolved in slots
        if op in ("get", "call"):
            ok = (got[0] == "returned" if exists else got[0] == "AttributeError") and not changed
        elif op == "set":
            ok = got[0] == "returned" and changed == [resolved] and after.get(resolved) == marker_token
        else:
            ok = (got[0] == "returned" and changed == [resolved] and resolved not in after) if exists else \
                (got[0] == "AttributeError" and not changed)
        if not ok:
            fails.append(Failure("forwarded-allowed-access", key, case, [repr(got)[:60], changed], resolved))
    return fails


def wire_cases():
    return st.fixed_dictionaries({"part": st.just("wire"), "bits": st.integers(0, 127), "prefix": st.sampled_from(PREFIXES[:3]),
                                  "op": st.sampled_from(["get", "set", "del", "call"]), "name_index": st.integers(0, 12),
                                  "has_name": st.integers(0, 1), "has_twin": st.integers(0, 1)})


# ---- (c) isolation ------------------------------------------------------------------------------------------------
def check_isolation(case, rec):
    import copy
    import rpyc
    from rpyc.core import consts
    import rpyc.core.protocol as protocol
    snap = copy.deepcopy(protocol.DEFAULT_CONFIG)
    steps = case["steps"]
    kinds = set(s[0] for s in steps)
    rec.case(case, "probe" in kinds and sum(1 for s in steps if s[0] == "open") >= 2,
             ["iso:" + k for k in kinds] + (["iso:slave"] if any(s[0] == "open" and s[2] == "slave" for s in steps) else []))
    fails = []
    conns = {}

    def effective(over, svc):
        cfg = dict(snap)
        cfg.update(over)
        if svc == "slave":
            cfg.update(dict(allow_all_attrs=True, allow_pickle=True, allow_getattr=True, allow_setattr=True,
                            allow_delattr=True, allow_exposed_attrs=False))
        return cfg
    for st_ in steps:
        kind = st_[0]
        if kind == "open":
            _, slot, svc, bits = st_
            over = dict((sw, bool(bits >> i & 1)) for i, sw in enumerate(SWITCHES))
            passed = dict(over)
            service = rpyc.SlaveService() if svc == "slave" else rpyc.VoidService()
            conn = service._connect(DummyChannel(), passed)
            if passed != over:
                fails.append(Failure("isolation", "caller's configuration dict was modified on connect", case, sorted(passed)))
            old = conns.pop(slot % 5, None)
            if old is not None:
                old[0].close()
            conns[slot % 5] = (conn, effective(over, svc))
        elif kind == "close":
            old = conns.pop(st_[1] % 5, None)
            if old is not None:
                old[0].close()
        elif kind == "probe" and conns:
            keys = sorted(conns)
            conn, cfg = conns[keys[st_[1] % len(keys)]]
            op = OPS[st_[2] % 4]
            ncls, name = name_classes("exposed_")[st_[3] % 10]
            pc = {"part": "isolation", "steps": steps}
            for f in evaluate(cfg, op, ncls, name, st_[4] & 1, st_[4] >> 1 & 1, (), conn, consts, rec, pc):
                fails.append(Failure("isolation", "probe-disagrees-with-own-config:" + f.clause, case, f.key))
        if protocol.DEFAULT_CONFIG != snap:
            diff = sorted(k for k in snap if protocol.DEFAULT_CONFIG.get(k) != snap[k])
            fails.append(Failure("isolation", "DEFAULT_CONFIG changed", case, diff))
            protocol.DEFAULT_CONFIG.clear()
            protocol.DEFAULT_CONFIG.update(copy.deepcopy(snap))
    for conn, _ in conns.values():
        conn.close()
    return fails[:3]


def isolation_cases():
    step = st.one_of(
        st.tuples(st.just("open"), st.integers(0, 4), st.sampled_from(["void", "slave", "void"]), st.integers(0, 127)),
        st.tuples(st.just("probe"), st.integers(0, 4), st.integers(0, 3), st.integers(0, 8), st.integers(0, 3)),
        st.tuples(st.just("probe"), st.integers(0, 4), st.integers(0, 3), st.integers(0, 8), st.integers(0, 3)),
        st.tuples(st.just("close"), st.integers(0, 4))).map(list)
    return st.fixed_dictionaries({"part": st.just("isolation"), "steps": st.lists(step, min_size=3, max_size=25)})


# -------------------------------------------------------------------------------------------------------------------
def plan(tier, scale):
    out = []
    if tier == "quick":
        for prefix in PREFIXES:
            for lo in range(0, 128, 32):
                out.append({"part": "grid", "prefixes": [prefix], "bits": list(range(lo, lo + 32)), "full": True})
        out.append({"part": "hooks", "bits": [0b0010011, 0b1111111, 0, 0b1100011]})
        out += [{"part": "wire", "n": int(120 * scale)} for _ in range(4)]
        out += [{"part": "forwarded", "n": int(100 * scale)} for _ in range(3)]
        out += [{"part": "isolation", "n": int(150 * scale)} for _ in range(2)]
    else:
        for prefix in PREFIXES:
            for lo in range(0, 128, 16):
                out.append({"part": "grid", "prefixes": [prefix], "bits": list(range(lo, lo + 16)), "full": True})
        out.append({"part": "hooks", "bits": list(range(0, 128, 3))})
        out += [{"part": "wire", "n": int(2500 * scale)} for _ in range(6)]
        out += [{"part": "forwarded", "n": int(2000 * scale)} for _ in range(4)]
        out += [{"part": "isolation", "n": int(3000 * scale)} for _ in range(4)]
    return out


def run_shard(desc, seed, rec, tier):
    part = desc["part"]
    if part == "grid":
        grid(rec, desc["prefixes"], desc["bits"])
        if desc.get("full"):
            rec.exhaustive = True
    elif part == "hooks":
        hooks_grid(rec, desc["bits"])
    elif part == "wire":
        drive(rec, wire_cases(), lambda c: check_wire(c, rec), desc["n"], seed)
    elif part == "forwarded":
        drive(rec, wire_cases().map(lambda c: dict(c, part="forwarded")), lambda c: check_forwarded(c, rec), desc["n"], seed)
    else:
        drive(rec, isolation_cases(), lambda c: check_isolation(c, rec), desc["n"], seed)


def replay(case, rec):
    from rpyc.core import consts
    from rpyc.core.protocol import DEFAULT_CONFIG
    part = case["part"]
    if part == "wire":
        return check_wire(case, rec)
    if part == "forwarded":
        return check_forwarded(case, rec)
    if part == "isolation":
        return check_isolation(case, rec)
    if part in ("grid", "hooks"):
        prefix = case["prefix"]
        name = dict(name_classes(prefix))[case["name_class"]]
        over = dict((sw, bool(case["bits"] >> i & 1)) for i, sw in enumerate(SWITCHES))
        over["exposed_prefix"] = prefix
        conn = make_conn(over)
        cfg = cfg_of(case["bits"], prefix, DEFAULT_CONFIG)
        rec.case(case, True, ["replay"])
        return evaluate(cfg, case["op"], case["name_class"], name, case["has_name"], case["has_twin"],
                        tuple(case["hooks"]), conn, consts, rec, case)
    rec.case(case, True, ["replay"])
    r2 = type(rec)(rec.prop, rec.known)
    hooks_grid(r2, [case["bits"]])
    return [Failure(v["oracle_clause"], v["signature"].split(":", 1)[1], v["case"], v["observed"]) for v in r2.failures.values()]
