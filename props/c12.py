"""C12 - concurrent senders never interleave, lose or strand a message (Connection._send)."""
import os

from hypothesis import strategies as st

from vlib import simkernel as sk
from vlib.hyp import drive
from vlib.runner import Failure

ID = "C12"
LEVEL = "exploration"
RULE = ("case = (tasks x messages, re-entrant sender?, schedule). Schedules are explicit data: the list of preemptions "
        "taken at source-line yield points inside Connection._send and at begin/middle/end of the transport write. "
        "quick: Hypothesis-generated preemption lists (bound 4) for 2-3 tasks x 1-3 messages; thorough adds stateless DFS "
        "over all line-level interleavings of 2 tasks x 1 message (exhaustive) and preemption-bounded DFS for larger "
        "shapes. oracle: every issued packet transmitted exactly once, transmissions never overlap, per-task order kept, "
        "queue empty at the end, no deadlock, no sender raised. non-trivial = at least one preemption actually taken while "
        "another task was inside _send; distinct by the executed sequence of context switches.")
ASSUMPTIONS = ["preemption at source-line boundaries of protocol.py:_send (list.append/pop(0) atomic, as the code's comment assumes)",
               "SimLock has threading.Lock's try-acquire semantics (non-reentrant)"]


class RecChannel(object):
    """records what is transmitted; three yield points make overlapping transmissions observable"""

    def __init__(self, k):
        self.k = k
        self.events = []          # ("B"|"E", task name, data)
        self.reentrant = {}       # data -> callable to invoke from inside send (what a finalizer would do)
        self.closed = False

    def send(self, data):
        k = self.k
        me = k.me().name
        k.yield_point(("chan", "begin"))
        self.events.append(("B", me, data))
        hook = self.reentrant.pop(data, None)
        if hook is not None:
            hook()
        k.yield_point(("chan", "middle"))
        self.events.append(("E", me, data))
        k.yield_point(("chan", "end"))

    def close(self):
        self.closed = True

    def poll(self, timeout):
        return False

    def fileno(self):
        return 0


def run_schedule(shape, chooser, rec=None):
    """shape = {"msgs": [n1, n2, ...], "reentrant": None | [task, msg]}; returns (failures-info, stats)"""
    import rpyc
    from rpyc.core import brine, consts
    import rpyc.core.protocol as protocol
    k = sk.Kernel(chooser, trace_files=[protocol.__file__], trace_funcs=["_send"], max_steps=20000)
    problems = []
    with k.installed():
        chan = RecChannel(k)
        conn = rpyc.Connection(rpyc.VoidService(), chan, {})
        issued = {}               # data -> (task, idx)
        order = {}
        errors = []
        re_tok = None
        if shape.get("reentrant"):
            rt, rm = shape["reentrant"]
            rt %= len(shape["msgs"])
            rm %= shape["msgs"][rt]
            re_tok = "re-from-t%dm%d" % (rt, rm)

        def sender(ti, n):
            for j in range(n):
                tok = "t%dm%d" % (ti, j)
                data = brine.dump((consts.MSG_REQUEST, 1000 * ti + j, tok))
                issued[data] = ("t%d" % ti, j)
                if re_tok is not None and ti == rt and j == rm:
                    rdata = brine.dump((consts.MSG_REQUEST, 999999, re_tok))
                    issued[rdata] = ("re", 0)

                    def hook():
                        conn._send(consts.MSG_REQUEST, 999999, re_tok)
                    chan.reentrant[data] = hook
                try:
                    conn._send(consts.MSG_REQUEST, 1000 * ti + j, tok)
                except sk.KernelAbort:
                    raise
                except BaseException as ex:
                    errors.append((ti, j, repr(ex)))

        tasks = [k.spawn(sender, ti, n, name="t%d" % ti) for ti, n in enumerate(shape["msgs"])]
        k.run()
        # ---- oracle (at quiescence, before the kernel tears anything down)
        if k.deadlock:
            problems.append(("deadlock", "senders blocked", k.deadlock))
        for t in tasks:
            if t.exc is not None:
                problems.append(("sender-raised", type(t.exc).__name__, t.exc_tb[-300:]))
        for e in errors:
            problems.append(("sender-raised", e[2].split("(")[0], e))
        evs = chan.events
        begun = [d for kind, _, d in evs if kind == "B"]
        if not k.deadlock:
            counts = {}
            for d in begun:
                counts[d] = counts.get(d, 0) + 1
            for d, who in issued.items():
                c = counts.get(d, 0)
                if c == 0:
                    problems.append(("lost", "message never transmitted", who))
                elif c > 1:
                    problems.append(("duplicate", "message transmitted %d times" % c, who))
            for d in counts:
                if d not in issued:
                    problems.append(("alien", "transmitted bytes nobody issued", d[:20].hex()))
            if conn._send_queue:
                problems.append(("stranded", "queue not empty after all senders returned", len(conn._send_queue)))
        # overlap: B x must be followed by E x before the next B
        open_ = None
        for kind, who, d in evs:
            if kind == "B":
                if open_ is not None:
                    problems.append(("overlap", "two transmissions interleaved", [open_[0], who]))
                    break
                open_ = (who, d)
            else:
                if open_ is None or open_[1] != d:
                    problems.append(("overlap", "end without matching begin", who))
                    break
                open_ = None
        # per-task order of issue
        last = {}
        for d in begun:
            who = issued.get(d)
            if who is None or who[0] == "re":
                continue
            if who[1] < last.get(who[0], -1):
                problems.append(("reordered", "a task's messages left out of issue order", who))
                break
            last[who[0]] = who[1]
        stats = {"decisions": k.decisions, "switches": k.switches, "steps": k.steps,
                 "taken": list(getattr(chooser, "taken", [])), "np_taken": getattr(chooser, "np_taken", 0),
                 "trace": [(kind, who) for kind, who, _ in evs]}
        conn._closed = True   # do not let __del__ send HANDLE_CLOSE through the fake channel
    return problems, stats


def _case_failures(case, problems):
    return [Failure(clause, key, case, detail) for clause, key, detail in problems[:3]]


def check_listed(case, rec):
    chooser = sk.ListChooser(case["preempt"], case["np"])
    problems, stats = run_schedule(case["shape"], chooser)
    sw = [t[0] for t in stats["taken"]]
    nontrivial = bool(stats["taken"])
    classes = ["tasks:%d" % len(case["shape"]["msgs"]), "preemptions:%d" % len(stats["taken"]),
               "reentrant:%s" % bool(case["shape"].get("reentrant"))]
    for _, tag in stats["taken"]:
        if tag and tag[0] == "chan":
            classes.append("preempt-in-transport-write")
        elif tag and tag[0] == "line":
            classes.append("preempt-at-_send-line")
    key = {"shape": case["shape"], "taken": sw, "np": case["np"][:stats["np_taken"] + 1], "trace": stats["trace"]}
    rec.case(key if nontrivial else case, nontrivial, classes)
    rec.count("decision_points", stats["decisions"])
    return _case_failures(case, problems)


def cases():
    shape = st.fixed_dictionaries({
        "msgs": st.lists(st.integers(1, 3), min_size=2, max_size=3),
        "reentrant": st.one_of(st.none(), st.tuples(st.integers(0, 2), st.integers(0, 2)).map(list)),
    })
    preempt = st.lists(st.tuples(st.integers(0, 50), st.integers(0, 3)).map(list), max_size=4)
    return st.fixed_dictionaries({"part": st.just("random"), "shape": shape, "preempt": preempt,
                                  "np": st.lists(st.integers(0, 2), max_size=6)})


# ---- DFS ------------------------------------------------------------------------------------------------
def dfs(shape, bound, rec, prefix_fixed=(), limit=None):
    """stateless DFS over all choice sequences extending prefix_fixed; returns number of schedules run"""
    floor = len(prefix_fixed)
    prefix = list(prefix_fixed)
    n = 0
    complete = True
    while prefix is not None:
        ch = sk.TrailChooser(prefix, bound)
        problems, stats = run_schedule(shape, ch)
        n += 1
        trail = [c for c, _ in ch.trail]
        case = {"part": "dfs", "shape": shape, "bound": bound, "trail": trail}
        rec.case(case, any(trail), ["dfs:%s bound=%s" % ("x".join(map(str, shape["msgs"])), bound),
                                    "reentrant:%s" % bool(shape.get("reentrant"))])
        for f in rec.triage(_case_failures(case, problems)):
            rec.violation(f)
        if rec.failures and n > 50:
            complete = False
            break
        if limit is not None and n >= limit:
            complete = False
            break
        prefix = ch.next_prefix(floor)
    return n, complete


def frontier(shape, bound, depth):
    """all distinct choice prefixes of length <= depth (found by running), used to shard a DFS"""
    out = []
    prefix = []
    while prefix is not None:
        ch = sk.TrailChooser(prefix, bound)
        run_schedule(shape, ch)
        head = [c for c, _ in ch.trail[:depth]]
        out.append(head)
        # next prefix within the first `depth` positions only
        t = ch.trail[:depth]
        i = len(t) - 1
        nxt = None
        while i >= 0:
            if t[i][0] + 1 < t[i][1]:
                nxt = [c for c, _ in t[:i]] + [t[i][0] + 1]
                break
            i -= 1
        prefix = nxt
    return out


def plan(tier, scale):
    if tier == "quick":
        out = [{"part": "random", "n": int(700 * scale)} for _ in range(8)]
        out += [{"part": "dfs", "shape": {"msgs": [1, 1], "reentrant": None}, "bound": 3, "prefix": []},
                {"part": "dfs", "shape": {"msgs": [1, 1], "reentrant": [0, 0]}, "bound": 2, "prefix": []},
                {"part": "dfs", "shape": {"msgs": [2, 1], "reentrant": None}, "bound": 2, "prefix": []}]
        # three preemptions with a second message from one thread: the shape in which a lost re-check strands a message
        for p in frontier({"msgs": [1, 2], "reentrant": None}, 3, 2):
            out.append({"part": "dfs", "shape": {"msgs": [1, 2], "reentrant": None}, "bound": 3, "prefix": p})
        return out
    out = [{"part": "random", "n": int(12000 * scale)} for _ in range(8)]
    # exhaustive 2 tasks x 1 message (unbounded), sharded on the first decisions (frontier found by running)
    for shape, bound, depth in (({"msgs": [1, 1], "reentrant": None}, None, 8),
                                ({"msgs": [1, 1], "reentrant": [0, 0]}, 6, 6),
                                ({"msgs": [2, 2], "reentrant": None}, 4, 6),
                                ({"msgs": [1, 1, 1], "reentrant": None}, 3, 5)):
        for p in frontier(shape, bound, depth):
            out.append({"part": "dfs", "shape": shape, "bound": bound, "prefix": p})
    return out


def run_shard(desc, seed, rec, tier):
    part = desc["part"]
    if part == "random":
        drive(rec, cases(), lambda c: check_listed(c, rec), desc["n"], seed)
    elif part == "dfs":
        n, complete = dfs(desc["shape"], desc["bound"], rec, desc.get("prefix", ()))
        rec.count("dfs_schedules", n)
        if desc["bound"] is None:
            rec.exhaustive = complete


def replay(case, rec):
    if case.get("part") == "dfs":
        ch = sk.TrailChooser(case["trail"], case.get("bound"))
        problems, stats = run_schedule(case["shape"], ch)
        rec.case(case, True, ["replay"])
        return _case_failures(case, problems)
    return check_listed(case, rec)
