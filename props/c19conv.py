"""C19 (conversations): the real Connection against the independent reference peer, in both roles.

The reference peer decodes every frame strictly with vlib.refcodec (published numbers as literals) and acts on the
*published meaning* of what it decoded; the oracle is what the real side then observes (role 1) or the exact frames the
real side answers with (role 2).  A self-consistent renumbering inside rpyc therefore shows up as a wrong result.
"""
from hypothesis import strategies as st

from vlib import refcodec as rc
from vlib import simkernel as sk
from vlib import vals
from vlib.hyp import drive
from vlib.refpeer import RawPeer, box_value
from vlib.runner import Failure

H = rc.HANDLERS
ROOT = ("refpeer.Root", 1001, 2001)
FUNC = ("refpeer.Echo", 1002, 2002)
OBJ = ("refpeer.Thing", 1003, 2003)
CLIENT_LIST = ("builtins.list", 111, 222)
FN = {"add": ("refpeer.Fn", 1004, 3001), "echo_kw": ("refpeer.Fn", 1004, 3002), "callme": ("refpeer.Fn", 1004, 3003)}


class RefServer(object):
    """scripted server with a tiny object model, speaking the published protocol"""

    def __init__(self, peer, k):
        self.peer = peer
        self.k = k
        self.errors = []
        self.dels = []
        self.seen_handlers = set()

    def box(self, v):
        if isinstance(v, tuple) and v and v[0] == "__ref__":
            return (rc.LABEL_REMOTE_REF, v[1])
        return (rc.LABEL_VALUE, v)

    def unbox(self, b):
        if type(b) is not tuple or len(b) != 2:
            raise ValueError("box is not a pair: %r" % (b,))
        label, val = b
        if label == rc.LABEL_VALUE:
            return val
        if label == rc.LABEL_TUPLE:
            return tuple(self.unbox(x) for x in val)
        if label == rc.LABEL_LOCAL_REF:
            return ("__mine__", val)
        if label == rc.LABEL_REMOTE_REF:
            return ("__theirs__", val)
        raise ValueError("label %r" % (label,))

    def call_client(self, idp, args):
        seq = self.peer.request(H["CALL"], (rc.LABEL_TUPLE, ((rc.LABEL_LOCAL_REF, idp), (rc.LABEL_TUPLE, tuple(box_value(a) for a in args)),
                                                                (rc.LABEL_VALUE, ()))))
        while True:
            m = self.peer.recv_msg()
            if m[0] == rc.MSG_REQUEST:
                self.handle(m)
                continue
            if m[1] != seq:
                self.errors.append("response to unknown seq %r" % (m[1],))
                continue
            if m[0] == rc.MSG_REPLY:
                return self.unbox(m[2])
            raise RuntimeError("client raised")

    def handle(self, m):
        kind, seq, body = m
        if type(seq) is not int:
            self.errors.append("sequence number is not an int: %r" % (seq,))
        if type(body) is not tuple or len(body) != 2 or type(body[0]) is not int:
            self.errors.append("request body is not (handler, args): %r" % (body,))
            return
        handler, boxed = body
        self.seen_handlers.add(handler)
        try:
            args = self.unbox(boxed)
            res = self.dispatch(handler, args)
            self.peer.reply(seq, self.box(res))
        except Exception as ex:
            self.peer.exception(seq, (("builtins", type(ex).__name__ if type(ex).__name__ in ("KeyError", "AttributeError", "TypeError",
                                                                                                "ValueError", "RuntimeError") else "RuntimeError"),
                                       (str(ex)[:60],), (), "reference peer"))

    def dispatch(self, handler, args):
        def mine(x, what):
            if not (type(x) is tuple and len(x) == 2 and x[0] == "__mine__" and x[1] == what):
                raise TypeError("expected a reference to my %r, got %r" % (what, x))
        if handler == H["GETROOT"]:
            return ("__ref__", ROOT)
        if handler == H["PING"]:
            return args[0]
        if handler == H["INSPECT"]:
            idp = args[0]
            if idp == ROOT:
                return (("add", None), ("echo_kw", "doc"), ("callme", None), ("__len__", None), ("__getitem__", None))
            if idp == FUNC or idp in FN.values():
                return (("__call__", None),)
            if idp == OBJ:
                return (("__len__", None), ("__iter__", None))
            raise KeyError(idp)
        if handler == H["GETATTR"]:
            obj, name = args
            if obj == ("__mine__", ROOT):
                table = {"value": 42, "echo": ("__ref__", FUNC), "thing": ("__ref__", OBJ), "text": "héllo", "nothing": None}
                table.update((n, ("__ref__", idp)) for n, idp in FN.items())
                if name in table:
                    return table[name]
            raise AttributeError(name)
        if handler == H["CALL"]:
            obj, a, kw = args
            if obj == ("__mine__", FN["add"]):
                return a[0] + a[1]
            if obj == ("__mine__", FN["echo_kw"]):
                return (a, tuple(sorted(kw)))
            if obj == ("__mine__", FN["callme"]):
                fn = a[0]
                if not (type(fn) is tuple and fn[0] == "__theirs__"):
                    raise TypeError("callme needs a reference")
                return ("called-back", self.call_client(fn[1], a[1:]))
            mine(obj, FUNC)
            return (a, tuple(sorted(kw)))
        if handler == H["CALLATTR"]:
            obj, name, a, kw = args
            if obj == ("__mine__", ROOT):
                if name == "add":
                    return a[0] + a[1]
                if name == "echo_kw":
                    return (a, tuple(sorted(kw)))
                if name == "__len__":
                    return 7
                if name == "__getitem__":
                    return ("item", a[0])
                if name == "callme":
                    fn = a[0]
                    if not (type(fn) is tuple and fn[0] == "__theirs__"):
                        raise TypeError("callme needs a reference")
                    return ("called-back", self.call_client(fn[1], a[1:]))
            if obj == ("__mine__", OBJ) and name == "__len__":
                return 3
            raise AttributeError(name)
        if handler == H["CMP"]:
            obj, other, op = args
            mine(obj, OBJ)
            return {"__eq__": other == 3, "__ne__": other != 3, "__lt__": 3 < other if type(other) is int else NotImplemented}.get(op, NotImplemented)
        if handler == H["HASH"]:
            mine(args[0], OBJ)
            return 1234
        if handler == H["STR"]:
            mine(args[0], OBJ)
            return "thing-str"
        if handler == H["REPR"]:
            mine(args[0], OBJ)
            return "thing-repr"
        if handler == H["DIR"]:
            return ("a", "b")
        if handler == H["DEL"]:
            self.dels.append(args)
            return None
        if handler == H["CLOSE"]:
            return None
        raise ValueError("handler %r" % handler)


def role1(case, rec):
    """rpyc is the client of the reference server"""
    import rpyc
    from rpyc.core.channel import Channel
    ops = case["ops"]
    problems = []
    k = sk.Kernel()
    with k.installed():
        link = sk.Link(k)
        conn = rpyc.VoidService()._connect(Channel(link.a), {"sync_request_timeout": 10})
        peer = RawPeer(link.b, strict=True)
        srv = RefServer(peer, k)

        def server_task():
            try:
                while True:
                    m = peer.recv_msg()
                    if m[0] != rc.MSG_REQUEST:
                        srv.errors.append("unsolicited response %r" % (m[:2],))
                        continue
                    srv.handle(m)
            except EOFError:
                pass

        def expect(label, got, want):
            ok = vals.same(got, want) if vals.plain(want) else got == want
            if not ok:
                problems.append(("conversation-result", label, {"got": repr(got)[:100], "want": repr(want)[:100]}))

        def driver():
            root = conn.root
            for op in ops:
                kind = op[0]
                try:
                    if kind == "getattr":
                        name = op[1]
                        want = {"value": 42, "text": "héllo", "nothing": None}[name]
                        expect("getattr " + name, getattr(root, name), want)
                    elif kind == "add":
                        a, b = int(op[1]), int(op[2])
                        expect("callattr add", root.add(a, b), a + b)
                    elif kind == "echo":
                        v = vals.build(op[1])
                        expect("call echo", root.echo(v, 5, key=v), ((v, 5), (("key", v),)))
                    elif kind == "echo_kw":
                        v = vals.build(op[1])
                        expect("callattr echo_kw", root.echo_kw(v, z=1, a=v), ((v,), (("a", v), ("z", 1))))
                    elif kind == "callback":
                        v = vals.build(op[1])
                        log = []

                        def fn(x):
                            log.append(x)
                            return ("from-client", x)
                        expect("callback", root.callme(fn, v), ("called-back", ("from-client", v)))
                        if len(log) != 1:
                            problems.append(("conversation-result", "callback ran %d times" % len(log), None))
                    elif kind == "thing":
                        t = root.thing
                        expect("cmp eq", t == 3, True)
                        expect("cmp ne", t != 3, False)
                        expect("cmp lt", t < 5, True)
                        expect("hash", hash(t), 1234)
                        expect("str", str(t), "thing-str")
                        expect("repr", repr(t), "thing-repr")
                        expect("len", len(t), 3)
                        expect("dir", sorted(dir(t)), ["a", "b"])
                        del t
                    elif kind == "rootlen":
                        expect("root len", len(root), 7)
                        expect("root getitem", root[op[1]], ("item", op[1]))
                    elif kind == "missing":
                        try:
                            root.no_such_attribute
                            problems.append(("conversation-result", "missing attribute returned", None))
                        except AttributeError:
                            pass
                    elif kind == "ping":
                        conn.ping("data-%s" % op[1], timeout=10)
                except sk.KernelAbort:
                    raise
                except Exception as ex:
                    problems.append(("conversation-raised", "%s: %s" % (kind, type(ex).__name__), str(ex)[:120]))
                    return
        k.spawn(server_task, name="refserver", daemon=True)
        t = k.spawn(driver, name="driver")
        k.run()
        if t.exc is not None:
            problems.append(("harness", type(t.exc).__name__, (t.exc_tb or "")[-300:]))
        if k.deadlock:
            problems.append(("hang", "conversation", k.deadlock))
        for e in (srv.errors + peer.decode_errors)[:2]:
            problems.append(("reference-peer-rejects-frame", e.split(":")[0][:60], e[:160]))
        for d in srv.dels:
            if not (type(d) is tuple and len(d) == 2 and type(d[0]) is tuple and d[0][0] == "__mine__" and type(d[1]) is int and d[1] >= 1):
                problems.append(("reference-peer-rejects-frame", "release notice is not (reference, count)", repr(d)[:100]))
        conn._closed = True
    return problems


def role2(case, rec):
    """the reference peer is the client of a real rpyc service"""
    import rpyc
    from rpyc.core.channel import Channel
    ops = case["ops"]
    problems = []
    k = sk.Kernel()

    class Svc(rpyc.Service):
        def exposed_add(self, a, b):
            return a + b

        def exposed_echo(self, *a, **kw):
            return (a, tuple(sorted(kw.items())))

        def exposed_fail(self, msg):
            raise KeyError(msg)

        def exposed_get_list(self):
            return [1, 2, 3]

        def exposed_use(self, lst):
            return len(lst) + 1
    with k.installed():
        link = sk.Link(k)
        conn = Svc()._connect(Channel(link.a), {"sync_request_timeout": 10})
        peer = RawPeer(link.b, strict=True)

        def serve():
            try:
                conn.serve_all()
            except sk.KernelAbort:
                raise
            except BaseException:
                pass

        def expect_frame(label, got, want):
            if not (vals.same(got, want) if vals.plain(want) and vals.plain(got) else got == want):
                problems.append(("wire-response", label, {"got": repr(got)[:140], "want": repr(want)[:140]}))

        def rpc(handler, boxed_args, seq):
            peer.send_msg(rc.MSG_REQUEST, seq, (handler, boxed_args))
            while True:
                if not peer.poll(10):
                    raise EOFError("no response")
                m = peer.recv_msg()
                if m[0] == rc.MSG_REQUEST:
                    yield_request(m)
                    continue
                return m

        served = []

        def yield_request(m):
            """the real side calls back into the reference client: decode strictly, answer by the published meaning"""
            served.append(m)
            kind, seq, body = m
            want_shape = type(body) is tuple and len(body) == 2 and type(body[0]) is int
            if not want_shape:
                problems.append(("wire-request", "request body is not (handler, args)", repr(m)[:120]))
                peer.reply(seq, box_value(None))
                return
            handler, boxed = body
            if handler == H["CALLATTR"]:
                want = (rc.LABEL_TUPLE, ((rc.LABEL_LOCAL_REF, CLIENT_LIST), (rc.LABEL_VALUE, "__len__"), (rc.LABEL_VALUE, ()), (rc.LABEL_VALUE, ())))
                if boxed != want:
                    problems.append(("wire-request", "len(proxy) is not encoded as CALLATTR(ref, '__len__', (), ())", {"got": repr(boxed)[:140]}))
                peer.reply(seq, box_value(4))
            elif handler == H["DEL"]:
                peer.reply(seq, box_value(None))
            else:
                problems.append(("wire-request", "unexpected handler %d from the real side" % handler, repr(boxed)[:100]))
                peer.reply(seq, box_value(None))

        def driver():
            seq = [100]

            def nxt():
                seq[0] += 7
                return seq[0]
            s = nxt()
            m = rpc(H["GETROOT"], (rc.LABEL_TUPLE, ()), s)
            if not (m[0] == rc.MSG_REPLY and m[1] == s and type(m[2]) is tuple and m[2][0] == rc.LABEL_REMOTE_REF
                    and type(m[2][1]) is tuple and len(m[2][1]) == 3 and type(m[2][1][0]) is str and type(m[2][1][1]) is int):
                problems.append(("wire-response", "GETROOT reply is not (2, seq, (4, (name, class id, instance id)))", repr(m)[:140]))
                return
            root = (rc.LABEL_LOCAL_REF, m[2][1])
            lst = None
            for op in ops:
                kind = op[0]
                s = nxt()
                if kind == "add":
                    a, b = int(op[1]), int(op[2])
                    m = rpc(H["CALLATTR"], (rc.LABEL_TUPLE, (root, box_value("add"), box_value((a, b)), box_value(()))), s)
                    expect_frame("add", m, (rc.MSG_REPLY, s, (rc.LABEL_VALUE, a + b)))
                elif kind == "echo":
                    v = vals.build(op[1])
                    m = rpc(H["CALLATTR"], (rc.LABEL_TUPLE, (root, box_value("echo"), box_value((v,)), box_value((("k", v),)))), s)
                    expect_frame("echo", m, (rc.MSG_REPLY, s, (rc.LABEL_VALUE, ((v,), (("k", v),)))))
                elif kind == "getattr-call":
                    m = rpc(H["GETATTR"], (rc.LABEL_TUPLE, (root, box_value("add"))), s)
                    if not (m[0] == rc.MSG_REPLY and m[1] == s and m[2][0] == rc.LABEL_REMOTE_REF):
                        problems.append(("wire-response", "bound method did not come back as a reference", repr(m)[:120]))
                        continue
                    meth = (rc.LABEL_LOCAL_REF, m[2][1])
                    s2 = nxt()
                    m = rpc(H["CALL"], (rc.LABEL_TUPLE, (meth, box_value((20, 22)), box_value(()))), s2)
                    expect_frame("call", m, (rc.MSG_REPLY, s2, (rc.LABEL_VALUE, 42)))
                    rpc(H["DEL"], (rc.LABEL_TUPLE, (meth, box_value(1))), nxt())
                elif kind == "fail":
                    m = rpc(H["CALLATTR"], (rc.LABEL_TUPLE, (root, box_value("fail"), box_value(("why",)), box_value(()))), s)
                    ok = (m[0] == rc.MSG_EXCEPTION and m[1] == s and type(m[2]) is tuple and len(m[2]) == 4 and m[2][0] == ("builtins", "KeyError")
                          and m[2][1] == ("why",) and type(m[2][2]) is tuple and type(m[2][3]) is str)
                    if not ok:
                        problems.append(("wire-response", "exception is not (3, seq, ((module, name), args, attrs, traceback text))", repr(m)[:160]))
                elif kind == "denied":
                    m = rpc(H["GETATTR"], (rc.LABEL_TUPLE, (root, box_value("_connect"))), s)
                    if m[0] != rc.MSG_EXCEPTION or m[2][0] != ("builtins", "AttributeError"):
                        problems.append(("wire-response", "denied attribute not answered with AttributeError", repr(m)[:120]))
                elif kind == "list":
                    m = rpc(H["CALLATTR"], (rc.LABEL_TUPLE, (root, box_value("get_list"), box_value(()), box_value(()))), s)
                    if not (m[0] == rc.MSG_REPLY and m[2][0] == rc.LABEL_REMOTE_REF and m[2][1][0] == "builtins.list"):
                        problems.append(("wire-response", "list did not come back as reference named builtins.list", repr(m)[:120]))
                        continue
                    lst = (rc.LABEL_LOCAL_REF, m[2][1])
                    s2 = nxt()
                    m = rpc(H["CALLATTR"], (rc.LABEL_TUPLE, (lst, box_value("__len__"), box_value(()), box_value(()))), s2)
                    expect_frame("len of list", m, (rc.MSG_REPLY, s2, (rc.LABEL_VALUE, 3)))
                    s3 = nxt()
                    m = rpc(H["CMP"], (rc.LABEL_TUPLE, (lst, box_value(5), box_value("__eq__"))), s3)
                    expect_frame("cmp", m, (rc.MSG_REPLY, s3, (rc.LABEL_VALUE, NotImplemented)))
                    s4 = nxt()
                    m = rpc(H["DEL"], (rc.LABEL_TUPLE, (lst, box_value(1))), s4)
                    expect_frame("del", m, (rc.MSG_REPLY, s4, (rc.LABEL_VALUE, None)))
                    s5 = nxt()
                    m = rpc(H["REPR"], (rc.LABEL_TUPLE, (lst,)), s5)
                    if m[0] != rc.MSG_EXCEPTION:
                        problems.append(("wire-response", "released reference still resolves", repr(m)[:120]))
                elif kind == "lend":
                    m = rpc(H["CALLATTR"], (rc.LABEL_TUPLE, (root, box_value("use"), (rc.LABEL_TUPLE, ((rc.LABEL_REMOTE_REF, CLIENT_LIST),)),
                                                             box_value(()))), s)
                    expect_frame("lend a reference", m, (rc.MSG_REPLY, s, (rc.LABEL_VALUE, 5)))
                elif kind == "ping":
                    m = rpc(H["PING"], box_value(("p%s" % op[1],)), s)
                    expect_frame("ping", m, (rc.MSG_REPLY, s, (rc.LABEL_VALUE, "p%s" % op[1])))
                elif kind == "compressed":
                    big = "x" * 5000
                    peer.send_msg(rc.MSG_REQUEST, s, (H["PING"], box_value((big,))), compress_level=op[1] % 10)
                    m = peer.recv_msg()
                    while m[0] == rc.MSG_REQUEST:
                        yield_request(m)
                        m = peer.recv_msg()
                    expect_frame("compressed request", m, (rc.MSG_REPLY, s, (rc.LABEL_VALUE, big)))
        k.spawn(serve, name="real-server", daemon=True)
        t = k.spawn(driver, name="refclient")
        k.run()
        if t.exc is not None and not isinstance(t.exc, EOFError):
            problems.append(("harness", type(t.exc).__name__, (t.exc_tb or "")[-300:]))
        elif t.exc is not None:
            problems.append(("wire-response", "real side stopped answering", None))
        if k.deadlock:
            problems.append(("hang", "conversation", k.deadlock))
        for e in peer.decode_errors[:2]:
            problems.append(("reference-peer-rejects-frame", e.split(":")[0][:60], e[:160]))
        conn._closed = True
    return problems


def _same_types(a, b):
    if type(a) is not type(b):
        return False
    if type(a) is tuple:
        return len(a) == len(b) and all(_same_types(x, y) for x, y in zip(a, b))
    return True


def check(case, rec):
    ops = case["ops"]
    kinds = set(o[0] for o in ops)
    both_dirs = bool(kinds & {"callback", "lend"})
    rec.case(case, both_dirs or bool(kinds & {"thing", "list"}), ["conv-role:%d" % case["role"]] + ["conv-op:" + k_ for k_ in kinds])
    problems = role1(case, rec) if case["role"] == 1 else role2(case, rec)
    return [Failure(cl, key, case, det) for cl, key, det in problems[:3]]


_small = vals.immutables(big=False, surrogates=True, max_leaves=4)


def cases():
    i = st.integers(-1000, 1000).map(str)
    ops1 = st.one_of(st.tuples(st.just("getattr"), st.sampled_from(["value", "text", "nothing"])), st.tuples(st.just("add"), i, i),
                     st.tuples(st.just("echo"), _small), st.tuples(st.just("echo_kw"), _small), st.tuples(st.just("callback"), _small),
                     st.tuples(st.just("thing"), st.just(0)), st.tuples(st.just("rootlen"), st.integers(0, 300)), st.tuples(st.just("missing"), st.just(0)),
                     st.tuples(st.just("ping"), st.integers(0, 9))).map(list)
    ops2 = st.one_of(st.tuples(st.just("add"), i, i), st.tuples(st.just("echo"), _small), st.tuples(st.just("getattr-call"), st.just(0)),
                     st.tuples(st.just("fail"), st.just(0)), st.tuples(st.just("denied"), st.just(0)), st.tuples(st.just("list"), st.just(0)),
                     st.tuples(st.just("lend"), st.just(0)), st.tuples(st.just("ping"), st.integers(0, 9)),
                     st.tuples(st.just("compressed"), st.integers(0, 9))).map(list)
    c1 = st.fixed_dictionaries({"part": st.just("conv"), "role": st.just(1), "ops": st.lists(ops1, min_size=1, max_size=8)})
    c2 = st.fixed_dictionaries({"part": st.just("conv"), "role": st.just(2), "ops": st.lists(ops2, min_size=1, max_size=8)})
    return st.one_of(c1, c2)


def run(desc, seed, rec):
    drive(rec, cases(), lambda c: check(c, rec), desc["n"], seed)


def replay(case, rec):
    return check(case, rec)
