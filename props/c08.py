"""C08 - every request gets exactly one response, delivered to its own requester."""
import collections

from hypothesis import strategies as st

from vlib import refcodec as rc
from vlib import simkernel as sk
from vlib.hyp import drive
from vlib.pair import Pair
from vlib.refpeer import RawPeer, box_value, box_tuple, box_local_ref, box_remote_ref
from vlib.runner import Failure

ID = "C08"
LEVEL = "exploration"
RULE = ("(a) request streams from a real client: generated mixes of synchronous, asynchronous (up to 50 outstanding before "
        "any is collected) and nested (callback) requests, each selecting a handler outcome: value, reference, built-in / "
        "custom exception, result that cannot be boxed or encoded, callback that raises. (b) raw requests from a reference "
        "peer: undecodable arguments (bad label, unknown local id, wrong arity, non-tuple), unknown handler numbers, arbitrary "
        "sequence numbers. oracle: a frame ledger decoded by the reference codec (exactly one response frame per request "
        "frame, same sequence number, none unrequested), handler counters (at most once; exactly once when the arguments "
        "decoded), every AsyncResult completes with its own token or the requested exception, and a ping after every "
        "failing request still succeeds. non-trivial = >= 2 requests outstanding at once and >= 1 non-value outcome, or a "
        "raw request with undecodable arguments. distinct by case hash.")
ASSUMPTIONS = ["the ledger is decoded with vlib.refcodec (independent of rpyc)", "HANDLE_CLOSE is not part of the streams"]

OUTCOMES = ["value", "value", "ref", "exc", "custom", "unboxable", "unencodable", "nested", "nested-exc", "none", "sysexit",
            "genexit", "exc-unprintable", "exc-hugeint"]


class Unprintable(object):
    def __repr__(self):
        raise RuntimeError("no repr")


class Hostile(object):
    """introspection of this object fails in the middle of boxing a reply"""

    def __getattr__(self, name):
        raise RuntimeError("no introspection: %s" % name)


def make_service(counters):
    import rpyc

    class MyErr(Exception):
        pass

    class S(rpyc.Service):
        def exposed_do(self, token, outcome, cb=None):
            counters[token] += 1
            if outcome == "value":
                return token
            if outcome == "none":
                return None
            if outcome == "ref":
                return [token]
            if outcome == "exc":
                raise ValueError(token)
            if outcome == "custom":
                raise MyErr(token)
            if outcome == "exc-unprintable":
                raise ValueError(token, Unprintable())
            if outcome == "exc-hugeint":
                raise ValueError(token, 10 ** 4400)        # cannot be rendered as text (nor repr'd) under the default digit limit
            if outcome == "sysexit":
                raise SystemExit(token)
            if outcome == "genexit":
                raise GeneratorExit(token)
            if outcome == "unboxable":
                return Hostile()
            if outcome == "unencodable":
                return (token, Hostile())
            if outcome in ("nested", "nested-exc"):
                return cb(token, outcome == "nested-exc")
            raise AssertionError(outcome)
    return S()


def ledger(link):
    """decode both directions; returns (requests_by_side, responses_by_side, problems)"""
    out = {}
    problems = []
    for side in ("A", "B"):
        try:
            frames = rc.parse_frames(bytes(link.wire[side]))
        except Exception as ex:
            problems.append(("ledger", "stream written by %s is not a sequence of whole frames" % side, str(ex)[:100]))
            frames = []
        msgs = []
        for flag, payload, _ in frames:
            try:
                m = rc.load(payload, strict_shortest=False)
            except Exception as ex:
                problems.append(("ledger", "undecodable frame written by %s" % side, str(ex)[:100]))
                continue
            if type(m) is tuple and len(m) == 3:
                msgs.append(m)
            else:
                problems.append(("ledger", "frame is not a message triple", repr(m)[:60]))
        out[side] = msgs
    return out, problems


def audit_ledger(msgs, requester, responder, expect_all_answered=True, ignore_handlers=(rc.HANDLERS["DEL"],)):
    """requests written by `requester` vs responses written by `responder`"""
    problems = []
    def counted(m):
        # release notices are fire-and-forget and may still be in flight when the stream ends
        return not (type(m[2]) is tuple and m[2] and m[2][0] in ignore_handlers)
    all_reqs = [m for m in msgs[requester] if m[0] == rc.MSG_REQUEST]
    reqs = [m for m in all_reqs if counted(m)]
    resps = [m for m in msgs[responder] if m[0] in (rc.MSG_REPLY, rc.MSG_EXCEPTION)]
    want = collections.Counter(_seqkey(m[1]) for m in reqs)
    anyreq = collections.Counter(_seqkey(m[1]) for m in all_reqs)
    got = collections.Counter(_seqkey(m[1]) for m in resps)
    for s, n in got.items():
        if s not in anyreq:
            problems.append(("ledger", "response bears a sequence number nobody requested", s))
        elif n > anyreq[s]:
            problems.append(("ledger", "request answered more than once", [s, n]))
    if expect_all_answered:
        for s, n in want.items():
            if got.get(s, 0) < n:
                problems.append(("ledger", "request never answered", s))
    return problems


def _seqkey(s):
    return repr(s)


# ---- (a) real client ---------------------------------------------------------------------------------------------
def check_stream(case, rec):
    import rpyc
    from rpyc.core import consts
    ops = case["ops"]
    counters = collections.Counter()
    outcomes = [o[1] for o in ops if o[0] in ("sync", "async")]
    max_out = 0
    cur = 0
    for o in ops:
        if o[0] == "async":
            cur += 1
            max_out = max(max_out, cur)
        elif o[0] == "collect" and cur:
            cur -= 1
    nontrivial = max_out >= 2 and any(x not in ("value", "none") for x in outcomes)
    rec.case(case, nontrivial, ["outcome:" + x for x in set(outcomes)] + ["max-outstanding:%s" % (max_out if max_out < 5 else "5+")])
    problems = []
    with Pair(rpyc.VoidService, make_service(counters), {"sync_request_timeout": 30}, {}) as p:
        def driver():
            root = p.a.root
            do = root.do
            ado = rpyc.async_(do)
            pending = []
            n = [0]

            def cb(tok, boom):
                if boom:
                    raise KeyError(tok)
                return tok + "/cb"

            def judge(tok, outcome, fn):
                try:
                    v = fn()
                    got = ("value", v)
                except sk.KernelAbort:
                    raise
                except BaseException as ex:
                    got = ("raised", ex)
                if outcome in ("value",):
                    ok = got == ("value", tok)
                elif outcome == "none":
                    ok = got == ("value", None)
                elif outcome == "ref":
                    ok = got[0] == "value" and list(got[1]) == [tok]
                elif outcome == "exc":
                    ok = got[0] == "raised" and isinstance(got[1], ValueError) and got[1].args == (tok,)
                elif outcome == "custom":
                    ok = got[0] == "raised" and type(got[1]).__name__.endswith("MyErr") and got[1].args == (tok,)
                elif outcome == "sysexit":
                    ok = got[0] == "raised" and isinstance(got[1], SystemExit) and got[1].args == (tok,)
                elif outcome == "genexit":
                    ok = got[0] == "raised" and isinstance(got[1], GeneratorExit) and got[1].args == (tok,)
                elif outcome in ("exc-unprintable", "exc-hugeint"):
                    ok = got[0] == "raised" and isinstance(got[1], ValueError) and got[1].args[:1] == (tok,)
                elif outcome in ("unboxable", "unencodable"):
                    ok = got[0] == "raised" and isinstance(got[1], Exception) and not isinstance(got[1], (EOFError, TimeoutError))
                elif outcome == "nested":
                    ok = got == ("value", tok + "/cb")
                else:
                    ok = got[0] == "raised" and isinstance(got[1], KeyError) and got[1].args == (tok,)
                if not ok:
                    shown = got[1] if got[0] == "value" else "%s: %s" % (type(got[1]).__name__, str(got[1])[:80])
                    problems.append(("wrong-outcome", "%s request got %s" % (outcome, got[0] if got[0] == "value" or
                                                                              not isinstance(got[1], (EOFError, TimeoutError))
                                                                              else type(got[1]).__name__), [tok, repr(shown)[:120]]))
                if outcome not in ("value", "none", "ref", "nested"):
                    try:
                        p.a.ping("after-" + tok, timeout=30)
                    except sk.KernelAbort:
                        raise
                    except BaseException as ex:
                        problems.append(("unusable-after-failure", "%s then ping raised %s" % (outcome, type(ex).__name__), tok))

            for op in ops:
                kind = op[0]
                if kind in ("sync", "async"):
                    if kind == "async" and len(pending) >= 50:
                        continue
                    tok = "t%d" % n[0]
                    n[0] += 1
                    args = (tok, op[1]) + ((cb,) if op[1].startswith("nested") else ())
                    if kind == "sync":
                        judge(tok, op[1], lambda: do(*args))
                    else:
                        if len(pending) < 50:
                            try:
                                pending.append((tok, op[1], ado(*args)))
                            except sk.KernelAbort:
                                raise
                            except BaseException as ex:
                                problems.append(("send-failed", type(ex).__name__, tok))
                elif kind == "collect" and pending:
                    tok, outcome, res = pending.pop(op[1] % len(pending))
                    judge(tok, outcome, lambda: res.value)
                elif kind == "ping":
                    try:
                        p.a.ping("p", timeout=30)
                    except sk.KernelAbort:
                        raise
                    except BaseException as ex:
                        problems.append(("unusable-after-failure", "ping raised %s" % type(ex).__name__, None))
            while pending:
                tok, outcome, res = pending.pop(0)
                judge(tok, outcome, lambda: res.value)
            return n[0]
        t = p.run(driver)
        if t.exc is not None:
            problems.append(("driver-raised", type(t.exc).__name__, t.exc_tb[-300:]))
        if p.k.deadlock:
            problems.append(("deadlock", "request stream", p.k.deadlock))
        issued = t.result or 0
        for i in range(issued):
            c = counters["t%d" % i]
            if c != 1 and not p.k.deadlock and t.exc is None:
                problems.append(("handler-count", "ran %d times" % c, "t%d" % i))
        msgs, lp = ledger(p.link)
        problems += lp
        alive = not p.k.deadlock and t.exc is None
        problems += audit_ledger(msgs, "A", "B", expect_all_answered=alive)
        problems += audit_ledger(msgs, "B", "A", expect_all_answered=alive)
    return [Failure(cl, key, case, det) for cl, key, det in problems[:3]]


def stream_cases():
    op = st.one_of(st.tuples(st.just("sync"), st.sampled_from(OUTCOMES)), st.tuples(st.just("async"), st.sampled_from(OUTCOMES)),
                   st.tuples(st.just("async"), st.sampled_from(OUTCOMES)), st.tuples(st.just("collect"), st.integers(0, 7)),
                   st.tuples(st.just("ping"), st.just(0))).map(list)
    burst = st.tuples(st.integers(2, 50), st.sampled_from(OUTCOMES)).map(lambda t: [["async", t[1]]] * 1 + [["async", "value"]] * (t[0] - 1))
    return st.fixed_dictionaries({"part": st.just("stream"),
                                  "ops": st.one_of(st.lists(op, min_size=1, max_size=14),
                                                   st.tuples(burst, st.lists(op, max_size=6)).map(lambda t: t[0] + t[1]))})


# ---- (b) raw requests ----------------------------------------------------------------------------------------------
def raw_request_body(kind, tok):
    H = rc.HANDLERS
    if kind == "ok-ping":
        return (H["PING"], box_value((tok,))), True
    if kind == "bad-label":
        return (H["PING"], (9, (tok,))), False
    if kind == "label-not-int":
        return (H["PING"], ("x", (tok,))), False
    if kind == "box-not-pair":
        return (H["PING"], (1, (tok,), 3)), False
    if kind == "unknown-local-id":
        return (H["REPR"], box_tuple([box_local_ref(("builtins.list", 1234, 5678))])), False
    if kind == "local-id-malformed":
        return (H["REPR"], box_tuple([box_local_ref(7)])), False
    if kind == "wrong-arity":
        return (H["PING"], box_value((tok, tok, tok))), False
    if kind == "args-not-tuple":
        return (H["PING"], box_value(tok)), False
    if kind == "unknown-handler":
        return (99, box_value((tok,))), False
    if kind == "handler-not-int":
        return ("PING", box_value((tok,))), False
    if kind == "body-not-pair":
        return (H["PING"],), False
    if kind == "body-not-tuple":
        return 5, False
    if kind == "remote-ref-malformed":
        return (H["PING"], box_tuple([box_remote_ref(("x",))])), False
    if kind == "tuple-label-non-iterable":
        return (H["PING"], (2, 5)), False
    raise ValueError(kind)


RAW_KINDS = ["ok-ping", "bad-label", "label-not-int", "box-not-pair", "unknown-local-id", "local-id-malformed", "wrong-arity",
             "args-not-tuple", "unknown-handler", "handler-not-int", "body-not-pair", "body-not-tuple", "remote-ref-malformed",
             "tuple-label-non-iterable"]
SEQS = [["int", "0"], ["int", "7"], ["int", "-1"], ["int", "1267650600228229401496703205376"], ["str", "seq"], ["none"],
        ["tuple", [["int", "1"], ["int", "2"]]], ["bytes", "00ff"], ["bool", True]]


def check_raw(case, rec):
    import rpyc
    from vlib import vals
    reqs = case["reqs"]
    rec.case(case, any(r[0] != "ok-ping" for r in reqs), ["raw:" + r[0] for r in reqs])
    problems = []
    k = sk.Kernel()
    with k.installed():
        link = sk.Link(k)
        from rpyc.core.channel import Channel
        conn = rpyc.VoidService()._connect(Channel(link.b), {})
        peer = RawPeer(link.a, strict=False)
        k.spawn(Pair._serve, conn, name="serve-B", daemon=True)

        def driver():
            used = set()
            for i, (kind, seqspec) in enumerate(reqs):
                seq = vals.build(SEQS[seqspec % len(SEQS)])
                if repr(seq) in used:
                    seq = 100 + i
                used.add(repr(seq))
                body, ok = raw_request_body(kind, "tok%d" % i)
                peer.send_msg(rc.MSG_REQUEST, seq, body)
                if not peer.poll(5):
                    problems.append(("raw-no-response", kind, repr(seq)))
                    if link.a.eof_in or conn.closed:
                        problems.append(("raw-connection-lost", kind, repr(seq)))
                        return
                    continue
                try:
                    m = peer.recv_msg()
                except Exception as ex:
                    problems.append(("raw-connection-lost", kind, "%s: %s" % (type(ex).__name__, ex)))
                    return
                if not (vals.same(m[1], seq) if vals.plain(seq) else m[1] == seq):
                    problems.append(("raw-wrong-seq", kind, [repr(m[1]), repr(seq)]))
                if ok and (m[0] != rc.MSG_REPLY or m[2] != box_value("tok%d" % i)):
                    problems.append(("raw-wrong-reply", kind, repr(m)[:80]))
                if not ok and m[0] != rc.MSG_EXCEPTION:
                    problems.append(("raw-accepted-undecodable", kind, repr(m)[:80]))
                if peer.poll(0):
                    problems.append(("raw-extra-response", kind, repr(peer.recv_msg())[:80]))
            # the connection must still be usable
            peer.send_msg(rc.MSG_REQUEST, 424242, (rc.HANDLERS["PING"], box_value(("alive",))))
            if not peer.poll(5):
                problems.append(("raw-connection-lost", "final ping unanswered", None))
            else:
                m = peer.recv_msg()
                if m != (rc.MSG_REPLY, 424242, box_value("alive")):
                    problems.append(("raw-wrong-reply", "final ping", repr(m)[:80]))
        t = k.spawn(driver, name="driver")
        k.run()
        if t.exc is not None and not isinstance(t.exc, EOFError):
            problems.append(("driver-raised", type(t.exc).__name__, t.exc_tb[-300:]))
        elif t.exc is not None:
            problems.append(("raw-connection-lost", "EOF while waiting", None))
        if k.deadlock:
            problems.append(("deadlock", "raw", k.deadlock))
        conn._closed = True
    return [Failure(cl, key, case, det) for cl, key, det in problems[:3]]


# ---- (c) a real client against a peer that duplicates / invents responses -------------------------------------------
def check_dupes(case, rec):
    import rpyc
    from rpyc.core import consts
    from rpyc.core.channel import Channel
    plan_ = case["plan"]
    rec.case(case, any(a[0] != "answer" for a in plan_), ["dupes:" + a[0] for a in plan_])
    problems = []
    k = sk.Kernel()
    with k.installed():
        link = sk.Link(k)
        conn = rpyc.VoidService()._connect(Channel(link.a), {})
        peer = RawPeer(link.b, strict=False)
        n = case["n"]

        def peer_task():
            seqs = []
            for _ in range(n):
                m = peer.recv_msg()
                seqs.append((m[1], m[2][1][1][0]))
            for act in plan_:
                seq, tok = seqs[act[1] % n]
                if act[0] == "answer":
                    peer.reply(seq, box_value(tok))
                elif act[0] == "dup-other-value":
                    peer.reply(seq, box_value(tok))
                    peer.reply(seq, box_value("intruder"))
                elif act[0] == "dup-exception":
                    peer.reply(seq, box_value(tok))
                    peer.exception(seq, (("builtins", "KeyError"), ("intruder",), (), "tb"))
                elif act[0] == "unknown-seq":
                    peer.reply(987654 + act[1], box_value("intruder"))
            for seq, tok in seqs:           # whatever is still unanswered gets its answer (a repeat is a duplicate)
                peer.reply(seq, box_value(tok))

        def driver():
            rs = [conn.async_request(consts.HANDLE_PING, "tok%d" % i, timeout=20) for i in range(n)]
            for i, r in enumerate(rs):
                try:
                    v = r.value
                except sk.KernelAbort:
                    raise
                except BaseException as ex:
                    v = "%s:%s" % (type(ex).__name__, ex)
                if v != "tok%d" % i:
                    problems.append(("foreign-response-delivered", "request completed with %s" %
                                     ("another response" if "intruder" in str(v) else "an error"), [i, str(v)[:60]]))
            conn.poll_all(0.5)
            for i, r in enumerate(rs):
                try:
                    v = r.value
                except BaseException as ex:
                    v = repr(ex)
                if v != "tok%d" % i:
                    problems.append(("foreign-response-delivered", "a later duplicate replaced the outcome", [i, str(v)[:60]]))
        k.spawn(peer_task, name="peer", daemon=True)
        t = k.spawn(driver, name="driver")
        k.run()
        if t.exc is not None:
            problems.append(("driver-raised", type(t.exc).__name__, t.exc_tb[-300:]))
        if k.deadlock:
            problems.append(("deadlock", "dupes", k.deadlock))
        conn._closed = True
    return [Failure(cl, key, case, det) for cl, key, det in problems[:3]]


def dupe_cases():
    act = st.tuples(st.sampled_from(["answer", "answer", "dup-other-value", "dup-exception", "unknown-seq"]), st.integers(0, 5)).map(list)
    return st.fixed_dictionaries({"part": st.just("dupes"), "n": st.integers(1, 5), "plan": st.lists(act, max_size=8)})


def raw_cases():
    r = st.tuples(st.sampled_from(RAW_KINDS), st.integers(0, len(SEQS) - 1)).map(list)
    return st.fixed_dictionaries({"part": st.just("raw"), "reqs": st.lists(r, min_size=1, max_size=8)})


def plan(tier, scale):
    if tier == "quick":
        ns, nr, sh = 70, 120, 8
    else:
        ns, nr, sh = 2500, 3000, 12
    return ([{"part": "stream", "n": int(ns * scale)} for _ in range(sh)] + [{"part": "raw", "n": int(nr * scale)} for _ in range(4)]
            + [{"part": "dupes", "n": int(nr * scale)} for _ in range(2)])


def run_shard(desc, seed, rec, tier):
    if desc["part"] == "stream":
        drive(rec, stream_cases(), lambda c: check_stream(c, rec), desc["n"], seed)
    elif desc["part"] == "dupes":
        drive(rec, dupe_cases(), lambda c: check_dupes(c, rec), desc["n"], seed)
    else:
        drive(rec, raw_cases(), lambda c: check_raw(c, rec), desc["n"], seed)


def replay(case, rec):
    return {"stream": check_stream, "raw": check_raw, "dupes": check_dupes}[case["part"]](case, rec)
