"""C07 - a hostile peer cannot step outside what the service exposes."""
import collections
import os
import sys
import tempfile

from hypothesis import strategies as st

from vlib import refcodec as rc
from vlib import simkernel as sk
from vlib import vals
from vlib.hyp import drive
from vlib.pair import is_netref
from vlib.refpeer import RawPeer
from vlib.runner import Failure
from props.c06 import model as policy_model

ID = "C07"
LEVEL = "exploration"
RULE = ("case = history (<= 30) of well-framed messages emitted by a raw reference peer against a real default-configuration "
        "Connection serving a victim service: every message kind, every handler number 1..20 plus junk, arguments built from "
        "every boxing label with generated payloads; object identifiers HARVESTED from earlier replies on this connection, "
        "taken from a SECOND connection to the same process, stale (already released), FORGED from the real id() of objects "
        "never sent (a hidden canary, sys, builtins, the service class, the other connection's objects), random or malformed; "
        "arbitrary id_packs as remote references (the victim then asks the hostile peer to INSPECT, answered well / badly / "
        "never); crafted exception records naming os.system, builtins.open/eval/type, a not-yet-imported canary module, dunder "
        "attribute names; arbitrary sequence numbers. oracle after every message: canaries (non-exposed callables never run, "
        "non-exposed attributes never read through a descriptor or written, private state snapshot unchanged), provenance "
        "(every non-plain non-proxy object handed to a handler was lent on THIS connection), pickle never used, no module "
        "named by the peer imported, and containment (the second connection still answers and its table is untouched). "
        "non-trivial = a message that reaches a handler with a reference argument, a forged/foreign/stale identifier, or a "
        "crafted exception record. distinct by history hash.")
ASSUMPTIONS = ["operations the protocol grants on any held reference irrespective of attribute policy (call, repr, str, hash, "
               "dir, inspect, instancecheck, buffiter) are by design and are not canaries",
               "denial of service by resource exhaustion is outside the statement"]

CANARY = collections.Counter()
MODDIR = None
H = rc.HANDLERS
NAMES = ["exposed_value", "value", "exposed_method", "dangerous", "hidden", "_wipe", "secret", "_private", "guarded", "__class__",
         "__dict__", "__init__", "__getattribute__", "__setattr__", "__delattr__", "__reduce_ex__", "__globals__", "__subclasses__",
         "__len__", "__call__", "__code__", "__self__", "__func__", "__module__", "append", "pop", "__iadd__", "exposed_get_obj",
         "exposed_", "__exit__", "__enter__", "next", "__next__", "__getitem__", "__mro__", "__bases__", "__builtins__"]


def setup_modules():
    global MODDIR
    if MODDIR is None:
        MODDIR = tempfile.mkdtemp(prefix="verif_c07_")
        with open(os.path.join(MODDIR, "verif_c07_canary.py"), "w") as f:
            f.write("import props.c07 as _h\n_h.CANARY['module-imported'] += 1\n\nclass Boom(Exception):\n"
                    "    def __new__(cls, *a):\n        _h.CANARY['custom-exception-instantiated'] += 1\n"
                    "        return Exception.__new__(cls, *a)\n"
                    "    def __init__(self, *a):\n        _h.CANARY['ctor'] += 1\n\nclass Thing(object):\n    pass\n")
        sys.path.insert(0, MODDIR)
    sys.modules.pop("verif_c07_canary", None)


def cleanup_modules():
    if MODDIR:
        import shutil
        shutil.rmtree(MODDIR, ignore_errors=True)


class Pub(object):
    def __init__(self):
        self.exposed_value = 41
        self.value = "not for you"
        self._hidden_state = ["untouched"]

    def exposed_method(self, x=0):
        return x + 1

    def dangerous(self, *a):
        CANARY["dangerous-called"] += 1

    @property
    def guarded(self):
        CANARY["guarded-read"] += 1
        return "guarded"

    def __len__(self):
        return 3


def make_victim():
    import rpyc

    class Victim(rpyc.Service):
        def __init__(self):
            self.secret = "s3cr3t"
            self._private = [1, 2]
            self.pub = Pub()
            self.lent_list = [1, 2, 3]

        def exposed_echo(self, x):
            return x

        def exposed_get_obj(self):
            return self.pub

        def exposed_get_list(self):
            return self.lent_list

        def exposed_get_func(self):
            return len

        def hidden(self, *a):
            CANARY["hidden-called"] += 1

        def _wipe(self, *a):
            CANARY["wipe-called"] += 1
    return Victim()


def state_snapshot(v):
    pub = v.__dict__.get("pub")
    return (dict(v.__dict__), dict(getattr(pub, "__dict__", {})), list(v.__dict__.get("_private", ())), list(v.__dict__.get("lent_list", ())),
            list(getattr(pub, "__dict__", {}).get("_hidden_state", ())), sorted(k for k in type(v).__dict__), sorted(k for k in Pub.__dict__))


# ---- building hostile messages from specs ---------------------------------------------------------------------------
class World(object):
    def __init__(self, conn, conn2, victim, victim2, hidden):
        from rpyc.lib import get_id_pack
        self.harvested = []
        self.stale = []
        self.conn = conn
        self.foreign = [get_id_pack(victim2), get_id_pack(victim2.lent_list), get_id_pack(victim2.pub)]
        self.forged = [get_id_pack(o) for o in (hidden, sys, __builtins__ if not isinstance(__builtins__, dict) else sys.modules["builtins"],
                                                 type(victim), victim._private, victim.pub._hidden_state, os, CANARY)]
        self.random = [("builtins.list", 1234, 5678), ("x", 0, 0), ("builtins.module", id(type(sys)), 1)]
        self.malformed = [7, ("a",), ("a", "b"), (1, 2, 3, 4), None, "idpack", (None, None, None)]

    def idpack(self, source, idx):
        pool = {"harvested": self.harvested, "stale": self.stale, "foreign": self.foreign, "forged": self.forged,
                "random": self.random, "malformed": self.malformed}[source]
        if not pool:
            pool = self.random
        return pool[idx % len(pool)]


def build_box(spec, w):
    t = spec[0]
    if t == "val":
        return (rc.LABEL_VALUE, vals.build(spec[1]))
    if t == "ref":
        return (rc.LABEL_LOCAL_REF, w.idpack(spec[1], spec[2]))
    if t == "rref":
        return (rc.LABEL_REMOTE_REF, tuple(spec[1]) if isinstance(spec[1], list) else spec[1])
    if t == "tup":
        return (rc.LABEL_TUPLE, tuple(build_box(s, w) for s in spec[1]))
    if t == "rawbox":
        return (vals.build(spec[1]), vals.build(spec[2]))
    if t == "notabox":
        return vals.build(spec[1])
    raise ValueError(spec)


def build_message(m, w):
    kind = m[0]
    if kind == "req":
        handler = m[1] if isinstance(m[1], int) else vals.build(m[1])
        return (rc.MSG_REQUEST, vals.build(m[2]), (handler, (rc.LABEL_TUPLE, tuple(build_box(a, w) for a in m[3]))))
    if kind == "req-rawargs":
        handler = m[1] if isinstance(m[1], int) else vals.build(m[1])
        return (rc.MSG_REQUEST, vals.build(m[2]), (handler, build_box(m[3], w)))
    if kind == "reply":
        return (rc.MSG_REPLY, vals.build(m[1]), build_box(m[2], w))
    if kind == "exc":
        (mod, name), args, attrs, tb = m[2]
        rec_ = ((mod, name), tuple(vals.build(a) for a in args), tuple((an, vals.build(av)) for an, av in attrs), vals.build(tb))
        return (rc.MSG_EXCEPTION, vals.build(m[1]), rec_)
    if kind == "exc-raw":
        return (rc.MSG_EXCEPTION, vals.build(m[1]), vals.build(m[2]))
    if kind == "raw":
        return vals.build(m[1])
    if kind == "junk-kind":
        return (vals.build(m[1]), vals.build(m[2]), vals.build(m[3]))
    raise ValueError(m)


def run_history(case):
    import rpyc
    from rpyc.core.channel import Channel
    import rpyc.core.protocol as protocol
    setup_modules()
    CANARY.clear()
    problems = []
    stats = collections.Counter()
    k = sk.Kernel(max_time=5000.0)
    import pickle
    import builtins
    trips = collections.Counter()
    saved = []

    def arm(mod, attr):
        orig = getattr(mod, attr)

        def trip(*a, _o=orig, _n="%s.%s" % (mod.__name__, attr), **kw):
            trips[_n] += 1
            return _o(*a, **kw)
        saved.append((mod, attr, orig))
        setattr(mod, attr, trip)
    with k.installed():
        lent = set()
        arrived_foreign = []

        class AuditConnection(protocol.Connection):
            def _box(self, obj):
                r = protocol.Connection._box(self, obj)
                if r[0] == rc.LABEL_REMOTE_REF:
                    lent.add(id(obj))
                return r

            def _unbox(self, package):
                v = protocol.Connection._unbox(self, package)
                self._audit(v)
                return v

            def _audit(self, v):
                if type(v) is tuple:
                    for e in v:
                        self._audit(e)
                elif not vals.plain(v) and not is_netref(v) and id(v) not in lent:
                    arrived_foreign.append(type(v).__name__)

        victim, victim2 = make_victim(), make_victim()
        type(victim)._protocol = AuditConnection
        hidden = Pub()
        link, link2 = sk.Link(k), sk.Link(k)
        conn = victim._connect(Channel(link.a), {"sync_request_timeout": 2})
        type(victim)._protocol = protocol.Connection
        # the second connection may be one that legitimately allows custom exceptions (its business, not the first one's)
        conn2 = victim2._connect(Channel(link2.a), {"instantiate_custom_exceptions": True, "import_custom_exceptions": True}
                                 if case.get("conn2_custom_exc") else {})
        peer = RawPeer(link.b, strict=False)
        peer2 = RawPeer(link2.b, strict=False)
        w = World(conn, conn2, victim, victim2, hidden)
        # the second connection legitimately holds a few objects
        for o in (victim2, victim2.lent_list, victim2.pub):
            conn2._local_objects.add(rpyc.lib.get_id_pack(o), o)
        table2 = set(conn2._local_objects._dict)
        snap = state_snapshot(victim)
        snap2 = state_snapshot(victim2)
        mods_before = set(sys.modules)
        policy = case["policy"]

        def serve(c):
            try:
                c.serve_all()
            except sk.KernelAbort:
                raise
            except BaseException as ex:
                stats["serve-ended:" + type(ex).__name__] += 1

        def harvest(box):
            if type(box) is tuple and len(box) == 2:
                if box[0] == rc.LABEL_REMOTE_REF and type(box[1]) is tuple and box[1] not in w.harvested:
                    w.harvested.append(box[1])
                elif box[0] == rc.LABEL_TUPLE and type(box[1]) is tuple:
                    for b in box[1]:
                        harvest(b)

        def drain(quiet=0.05):
            """read what the victim sends; answer its requests per policy"""
            while True:
                try:
                    if not peer.poll(quiet):
                        return True
                    msg = peer.recv_msg()
                except (EOFError, Exception):
                    return False
                if msg[0] == rc.MSG_REQUEST:
                    stats["victim-request"] += 1
                    handler = msg[2][0] if type(msg[2]) is tuple and msg[2] else None
                    victim_handlers.append(handler)
                    if policy == "never":
                        continue
                    try:
                        if policy == "badly":
                            peer.send_msg(rc.MSG_REPLY, msg[1], (rc.LABEL_VALUE, (("__class__", 5), 7, None)))
                        elif handler == H["INSPECT"]:
                            peer.send_msg(rc.MSG_REPLY, msg[1], (rc.LABEL_VALUE, (("__call__", None), ("__len__", None), ("dangerous", "doc"),
                                                                                 ("__getattr__", None))))
                        else:
                            peer.send_msg(rc.MSG_REPLY, msg[1], (rc.LABEL_VALUE, None))
                    except EOFError:
                        return False
                else:
                    stats["victim-response:%s" % ("reply" if msg[0] == rc.MSG_REPLY else "exception")] += 1
                    responses.append((msg[0], msg[1]))
                    harvest(msg[2])

        responses = []
        victim_handlers = []

        def name_verdict(i, m, msg):
            """a by-name request whose NAME is not text by value (here: a reference to an object of the peer's, whatever class
            the peer claims for it) must be refused without asking that object anything: the policy decision is the owner's"""
            if m[0] != "req" or m[1] not in (H["GETATTR"], H["SETATTR"], H["DELATTR"], H["CALLATTR"]) or len(m[3]) < 2:
                return
            try:
                boxed = msg[2][1][1]
                if boxed[0][0] != rc.LABEL_LOCAL_REF or boxed[1][0] != rc.LABEL_REMOTE_REF:
                    return
                if boxed[0][1] not in conn._local_objects._dict and not conn.closed:
                    return
            except Exception:
                return
            stats["name-by-reference-probe"] += 1
            asked = [h for h in victim_handlers if h != H["INSPECT"] and h != H["DEL"]]
            if asked:
                problems.append(("name-consulted", "victim asked the peer's object (handler %s) while deciding a by-name access" % asked[0],
                                 {"after-message": i, "message": m}))
            seqkey = repr(msg[1])
            if rc.MSG_REPLY in [kd for kd, s_ in responses if repr(s_) == seqkey]:
                problems.append(("denied-attribute-served", "by-name access with a name passed by reference was served",
                                 {"after-message": i, "message": m}))

        def policy_verdict(i, m, msg):
            """by-name access that the default policy denies must be answered with an exception"""
            if m[0] != "req" or m[1] not in (H["GETATTR"], H["SETATTR"], H["DELATTR"], H["CALLATTR"]) or len(m[3]) < 2:
                return
            try:
                boxed = msg[2][1][1]
                if boxed[0][0] != rc.LABEL_LOCAL_REF or boxed[1][0] != rc.LABEL_VALUE:
                    return
                target = conn._local_objects._dict.get(boxed[0][1])
                name = boxed[1][1]
            except Exception:
                return
            if target is None or type(name) is not str:
                return
            obj = target[0]
            cfg = dict(protocol.DEFAULT_CONFIG)
            op = {H["GETATTR"]: "get", H["SETATTR"]: "set", H["DELATTR"]: "del", H["CALLATTR"]: "call"}[m[1]]
            try:
                has_twin = hasattr(type(obj), "exposed_" + name) or ("exposed_" + name) in getattr(obj, "__dict__", {})
                has_name = hasattr(type(obj), name) or name in getattr(obj, "__dict__", {})
            except Exception:
                return
            exp = policy_model(cfg, op, name, has_name, has_twin)
            if exp[0] != "deny":
                return
            stats["policy-denied-probe"] += 1
            seqkey = repr(msg[1])
            kinds = [kd for kd, s in responses if repr(s) == seqkey]
            if rc.MSG_REPLY in kinds:
                problems.append(("denied-attribute-served", "%s %r on a %s" % (op, name, type(obj).__name__), {"after-message": i, "message": m}))

        def verdict(i, m):
            for name, n in CANARY.items():
                if n:
                    problems.append(("canary", name, {"after-message": i, "message": m}))
            if state_snapshot(victim) != snap:
                problems.append(("state-changed", "victim's state differs after a hostile message", {"after-message": i, "message": m}))
            if state_snapshot(victim2) != snap2 or set(conn2._local_objects._dict) != table2:
                problems.append(("other-connection-touched", "second connection's objects or table changed", {"after-message": i}))
            if arrived_foreign:
                problems.append(("provenance", "object never lent on this connection reached a handler: %s" % arrived_foreign[0],
                                 {"after-message": i, "message": m}))
            for name, n in trips.items():
                if n:
                    problems.append(("tripwire", name, {"after-message": i, "message": m}))
            new_mods = [x for x in set(sys.modules) - set(mods_before) if x.startswith(("verif_c07", "antigravity", "this", "idlelib", "turtle"))]
            if new_mods or CANARY["module-imported"]:
                problems.append(("import", "peer-named module imported: %s" % (new_mods or ["verif_c07_canary"])[0], {"after-message": i, "message": m}))

        def driver():
            # a polite prelude so that there is something to harvest
            for name in case["prelude"]:
                try:
                    peer.send_msg(rc.MSG_REQUEST, 9000 + len(w.harvested), (H["GETROOT"], (rc.LABEL_TUPLE, ())))
                    drain()
                    if w.harvested:
                        peer.send_msg(rc.MSG_REQUEST, 9100 + len(w.harvested),
                                      (H["CALLATTR"], (rc.LABEL_TUPLE, ((rc.LABEL_LOCAL_REF, w.harvested[0]), (rc.LABEL_VALUE, name),
                                                                        (rc.LABEL_VALUE, ()), (rc.LABEL_VALUE, ())))))
                        drain()
                except EOFError:
                    return
            if case.get("release") and len(w.harvested) > 1:
                victim_ref = w.harvested[-1]
                peer.send_msg(rc.MSG_REQUEST, 9500, (H["DEL"], (rc.LABEL_TUPLE, ((rc.LABEL_LOCAL_REF, victim_ref), (rc.LABEL_VALUE, 5)))))
                drain()
                w.stale.append(victim_ref)
            if case.get("conn2_custom_exc"):
                # the other connection receives (and is allowed to rebuild) the custom exception class first
                peer2.send_msg(rc.MSG_EXCEPTION, 77, (("verif_c07_canary", "Boom"), ("x",), (), "tb"))
                k.sleep(0.2)
                CANARY.clear()
                mods_before.update(sys.modules)
            for mod, attr in ((pickle, "dumps"), (pickle, "loads"), (pickle, "load"), (pickle, "dump"), (os, "system"),
                              (builtins, "eval"), (builtins, "exec")):
                arm(mod, attr)
            try:
                for i, m in enumerate(case["messages"]):
                    try:
                        msg = build_message(m, w)
                    except Exception:
                        continue
                    try:
                        if m[0] == "raw" or m[0] == "junk-kind":
                            peer.send_raw_frame(rc.dump(msg))
                        else:
                            peer.send_msg(*msg)
                    except (EOFError, TypeError):
                        stats["connection-ended"] += 1
                        break
                    del responses[:]
                    del victim_handlers[:]
                    alive = drain()
                    policy_verdict(i, m, msg)
                    name_verdict(i, m, msg)
                    verdict(i, m)
                    if problems:
                        return
                    if not alive:
                        stats["connection-ended"] += 1
                        break
                # let a victim that waits for an answer it will never get run into its own timeout
                k.sleep(3.0)
                drain()
                verdict(len(case["messages"]), None)
                # containment: the other connection still works
                peer2.send_msg(rc.MSG_REQUEST, 1, (H["PING"], (rc.LABEL_VALUE, ("still-here",))))
                if not peer2.poll(5):
                    problems.append(("containment", "second connection stopped answering", None))
                else:
                    r = peer2.recv_msg()
                    if r != (rc.MSG_REPLY, 1, (rc.LABEL_VALUE, "still-here")):
                        problems.append(("containment", "second connection answered wrongly", repr(r)[:80]))
            finally:
                while saved:
                    mod, attr, orig = saved.pop()
                    setattr(mod, attr, orig)

        k.spawn(serve, conn, name="victim", daemon=True)
        k.spawn(serve, conn2, name="victim2", daemon=True)
        t = k.spawn(driver, name="hostile")
        k.run()
        if t.exc is not None:
            problems.append(("harness", type(t.exc).__name__, (t.exc_tb or "")[-400:]))
        if k.deadlock:
            problems.append(("hang", "victim or peer blocked", k.deadlock))
        stats["harvested"] = len(w.harvested)
        conn._closed = conn2._closed = True
    sys.modules.pop("verif_c07_canary", None)
    return problems, stats


def classify(case):
    classes = set(["policy:" + case["policy"]])
    nontrivial = False
    ms = case["messages"]
    for a, b in zip(ms, ms[1:]):
        if a[0] == b[0] == "req" and isinstance(a[1], int) and isinstance(b[1], int) and {a[1], b[1]} & {H["GETATTR"], H["CALLATTR"]} and {a[1], b[1]} & {H["SETATTR"], H["DELATTR"]} \
                and len(a[3]) >= 2 and len(b[3]) >= 2 and a[3][:2] == b[3][:2]:
            classes.add("fragment:permitted-and-denied-access-of-one-name")
    for m in case["messages"]:
        classes.add("msg:" + m[0])
        if m[0] in ("req", "req-rawargs"):
            h = m[1]
            classes.add("handler:%s" % (h if isinstance(h, int) else "junk"))
            flat = _flat(m[3]) if m[0] == "req" else _flat([m[3]])
            for a in flat:
                if a[0] == "ref":
                    classes.add("id:" + a[1])
                    nontrivial = True
                elif a[0] == "rref":
                    classes.add("remote-ref")
                    nontrivial = True
                elif a[0] in ("rawbox", "notabox"):
                    classes.add("junk-label")
        elif m[0] == "exc":
            classes.add("crafted-exception:%s.%s" % tuple(m[2][0]))
            nontrivial = True
    return classes, nontrivial


def _flat(args):
    out = []
    for a in args:
        if a[0] == "tup":
            out += _flat(a[1])
        else:
            out.append(a)
    return out


def check(case, rec):
    classes, nontrivial = classify(case)
    problems, stats = run_history(case)
    for s in stats:
        if s.startswith(("victim-", "connection-", "serve-ended")):
            classes.add(s)
    rec.case(case, nontrivial, classes)
    rec.count("policy-denied probes answered", stats["policy-denied-probe"])
    rec.count("by-name requests with the name passed by reference", stats["name-by-reference-probe"])
    rec.count("identifiers harvested", stats["harvested"])
    return [Failure(cl, key, case, det) for cl, key, det in problems[:3]]


# ---- generators -------------------------------------------------------------------------------------------------------
_small = vals.immutables(big=False, surrogates=False, max_leaves=3)


def boxes():
    idsrc = st.sampled_from(["harvested", "harvested", "harvested", "foreign", "stale", "forged", "forged", "random", "malformed"])
    ref = st.tuples(st.just("ref"), idsrc, st.integers(0, 7)).map(list)
    val = _small.map(lambda s: ["val", s])
    name = st.sampled_from(NAMES).map(lambda n: ["val", ["str", n]])
    rref = st.sampled_from([["rref", ["builtins.list", 111, 222]], ["rref", ["verif_c07_canary.Thing", 333, 444]],
                            ["rref", ["verif_c07_canary.Boom", 555, 0]], ["rref", ["os.system", 1, 2]], ["rref", ["antigravity.x", 5, 6]],
                            ["rref", ["builtins.function", 7, 8]], ["rref", ["x", 1]], ["rref", 5]])
    junk = st.tuples(st.just("rawbox"), _small, _small).map(list)
    leaf = st.one_of(ref, ref, val, name, rref, junk, _small.map(lambda s: ["notabox", s]))
    return st.recursive(leaf, lambda ch: st.lists(ch, max_size=3).map(lambda xs: ["tup", xs]), max_leaves=5)


def typed_request():
    """well-typed calls for every handler, with hostile operands"""
    idsrc = st.sampled_from(["harvested", "harvested", "harvested", "foreign", "stale", "forged", "forged", "random"])
    obj = st.tuples(st.just("ref"), idsrc, st.integers(0, 7)).map(list)
    name = st.sampled_from(NAMES).map(lambda n: ["val", ["str", n]])
    bname = st.sampled_from(NAMES).map(lambda n: ["val", ["bytes", n.encode().hex()]])
    anyname = st.one_of(name, name, bname, _small.map(lambda s: ["val", s]))
    val = st.one_of(_small.map(lambda s: ["val", s]), obj)
    emp = st.just(["val", ["tuple", []]])
    args_t = st.one_of(emp, st.lists(val, max_size=2).map(lambda xs: ["tup", xs]))
    op = st.sampled_from(["__eq__", "__lt__", "__ne__", "_wipe", "hidden", "dangerous", "__getattribute__", "__delattr__", "__setattr__",
                          "__reduce_ex__", "__class__", "__init_subclass__", "__subclasshook__", "__dir__", "mro"]).map(lambda n: ["val", ["str", n]])
    idp = st.one_of(st.tuples(idsrc, st.integers(0, 7)).map(lambda t: ["ref", t[0], t[1]]),
                    st.sampled_from([["val", ["tuple", [["str", "builtins.list"], ["int", "1"], ["int", "2"]]]],
                                     ["val", ["tuple", [["str", "verif_c07_canary.Thing"], ["int", "1"], ["int", "0"]]]]]))
    table = [
        (H["GETATTR"], st.tuples(obj, anyname)), (H["SETATTR"], st.tuples(obj, anyname, val)), (H["DELATTR"], st.tuples(obj, anyname)),
        (H["CALL"], st.tuples(obj, args_t, emp)), (H["CALLATTR"], st.tuples(obj, anyname, args_t, emp)),
        (H["REPR"], st.tuples(obj)), (H["STR"], st.tuples(obj)), (H["HASH"], st.tuples(obj)), (H["DIR"], st.tuples(obj)),
        (H["CMP"], st.tuples(obj, val, op)), (H["PICKLE"], st.tuples(obj, st.just(["val", ["int", "2"]]))),
        (H["DEL"], st.tuples(obj, st.sampled_from([["val", ["int", "1"]], ["val", ["int", "999"]], ["val", ["int", "-5"]]]))),
        (H["INSPECT"], st.tuples(st.one_of(st.tuples(idsrc, st.integers(0, 7)).map(lambda t: ["val", ["str", "placeholder"]]), val))),
        (H["BUFFITER"], st.tuples(obj, st.sampled_from([["val", ["int", "2"]], ["val", ["int", "-1"]]]))),
        (H["OLDSLICING"], st.tuples(obj, anyname, anyname, val, val, emp)),
        (H["CTXEXIT"], st.tuples(obj, val)), (H["INSTANCECHECK"], st.tuples(obj, idp)),
        (H["PING"], st.tuples(val)), (H["GETROOT"], st.tuples()), (H["CLOSE"], st.tuples()),
    ]
    weighted = [t for t in table if t[0] != H["CLOSE"]] * 3 + [t for t in table if t[0] == H["CLOSE"]]
    return st.sampled_from(weighted).flatmap(lambda t: t[1].map(lambda args: ["req", t[0], ["int", "7"], list(args)]))


def attack():
    """constructive: every by-name route aimed at what the victim does not expose, on identifiers that are really held"""
    tgt = st.integers(0, 2).map(lambda i: ["ref", "harvested", i])
    evil = st.sampled_from(["_wipe", "hidden", "dangerous", "guarded", "secret", "_private", "value", "__dict__", "__class__",
                            "__getattribute__", "__setattr__", "__delattr__", "_hidden_state", "__init__", "__reduce_ex__",
                            "exposed_value", "exposed_method", "pub", "lent_list", "exposed_echo", "__len__"])
    nm = evil.map(lambda n: ["val", ["str", n]])
    bnm = evil.map(lambda n: ["val", ["bytes", n.encode().hex()]])
    # ... and the name itself passed as a reference to an object of the peer's that claims to be text
    rnm = st.sampled_from([["rref", ["builtins.str", 901, 902]], ["rref", ["enum.StrEnum", 903, 904]], ["rref", ["builtins.bytes", 905, 906]],
                           ["rref", ["verif_c07_canary.Thing", 907, 908]]])
    name = st.one_of(nm, nm, nm, bnm, rnm)
    v = st.sampled_from([["val", ["int", "1"]], ["val", ["str", "secret"]], ["val", ["tuple", []]], ["val", ["none"]]])
    emp = st.just(["val", ["tuple", []]])
    routes = st.one_of(
        st.tuples(st.just(H["CMP"]), st.tuples(tgt, v, name)), st.tuples(st.just(H["CALLATTR"]), st.tuples(tgt, name, emp, emp)),
        st.tuples(st.just(H["GETATTR"]), st.tuples(tgt, name)), st.tuples(st.just(H["SETATTR"]), st.tuples(tgt, name, v)),
        st.tuples(st.just(H["DELATTR"]), st.tuples(tgt, name)), st.tuples(st.just(H["OLDSLICING"]), st.tuples(tgt, name, name, v, v, emp)),
        st.tuples(st.just(H["PICKLE"]), st.tuples(tgt, st.just(["val", ["int", "2"]]))),
        st.tuples(st.just(H["CTXEXIT"]), st.tuples(tgt, v)))
    return routes.map(lambda t: ["req", t[0], ["int", "7"], list(t[1])])


def messages():
    seq = st.one_of(st.integers(0, 50).map(lambda n: ["int", str(n)]), _small)
    handler = st.one_of(st.integers(1, 20), st.integers(1, 20), st.sampled_from([0, 21, -1, 2 ** 40]), _small)
    generic = st.tuples(st.just("req"), handler, seq, st.lists(boxes(), max_size=4)).map(list)
    rawargs = st.tuples(st.just("req-rawargs"), handler, seq, boxes()).map(list)
    excname = st.sampled_from([["os", "system"], ["builtins", "open"], ["builtins", "eval"], ["builtins", "type"], ["builtins", "object"],
                               ["verif_c07_canary", "Boom"], ["verif_c07_canary", "Thing"], ["builtins", "KeyError"],
                               ["subprocess", "Popen"], ["antigravity", "fly"], ["builtins", "BaseException"]])
    attr = st.tuples(st.sampled_from(["__class__", "__dict__", "__traceback__", "args", "_remote_tb", "__init__", "x", "__cause__"]), _small).map(list)
    exc = st.tuples(st.just("exc"), seq, st.tuples(excname, st.lists(_small, max_size=2), st.lists(attr, max_size=2), _small).map(list)).map(list)
    reply = st.tuples(st.just("reply"), seq, boxes()).map(list)
    raw = st.one_of(st.tuples(st.just("raw"), _small).map(list), st.tuples(st.just("junk-kind"), _small, _small, _small).map(list),
                    st.tuples(st.just("exc-raw"), seq, _small).map(list))
    typed = typed_request().flatmap(lambda m: seq.map(lambda s: [m[0], m[1], s, m[3]]))
    # messages that (legitimately) end the connection are kept rare so that histories stay deep
    atk = attack().flatmap(lambda m: seq.map(lambda s: [m[0], m[1], s, m[3]]))
    body = st.one_of(typed, typed, typed, typed, typed, atk, atk, atk, generic, generic, rawargs, exc, exc)
    return st.one_of(body, body, body, body, body, body, body, st.one_of(reply, raw))


def replay_fragment():
    """a PERMITTED by-name access followed by a denied one of the same name on the same object (and the reverse order): a
    decision remembered per name must not answer a question of another kind"""
    tgt = st.sampled_from([1, 1, 1, 2, 0]).map(lambda i: ["ref", "harvested", i])       # [0] is the root, [1] the first prelude result
    nm = st.sampled_from(["exposed_value", "value", "exposed_method", "method", "exposed_value", "value", "exposed_echo", "echo",
                          "exposed_get_obj", "get_obj", "__len__", "__doc__", "__str__", "exposed_get_list"]).map(lambda n: ["val", ["str", n]])
    v = st.sampled_from([["val", ["int", "1"]], ["val", ["none"]]])
    emp = ["val", ["tuple", []]]

    def mk(t):
        o, n, val, first, second, swap = t
        a = ["req", H["GETATTR"], ["int", "11"], [o, n]] if first else ["req", H["CALLATTR"], ["int", "11"], [o, n, emp, emp]]
        b = ["req", H["SETATTR"], ["int", "12"], [o, n, val]] if second else ["req", H["DELATTR"], ["int", "12"], [o, n]]
        return [b, a, b] if swap else [a, b]
    return st.tuples(tgt, nm, v, st.booleans(), st.booleans(), st.booleans()).map(mk)


def message_lists():
    """a generated history; every other one has the permitted-then-denied fragment spliced in at a generated position"""
    base = st.lists(messages(), min_size=1, max_size=30)
    return st.tuples(base, st.one_of(st.just([]), replay_fragment()), st.integers(0, 30)).map(
        lambda t: (t[0][:t[2] % (len(t[0]) + 1)] + t[1] + t[0][t[2] % (len(t[0]) + 1):])[:30])


def cases():
    return st.fixed_dictionaries({
        "prelude": st.lists(st.sampled_from(["get_obj", "get_list", "get_func", "get_obj"]), min_size=1, max_size=4),
        "release": st.booleans(), "policy": st.sampled_from(["well", "well", "badly", "never"]), "conn2_custom_exc": st.booleans(),
        "messages": message_lists()})


def fuzz_cases():
    """the same histories, drawn as a tuple: what Hypothesis's byte-string front end (fuzz_one_input) decodes reliably"""
    return st.tuples(st.lists(st.sampled_from(["get_obj", "get_list", "get_func", "get_obj"]), min_size=1, max_size=4), st.booleans(),
                     st.sampled_from(["well", "well", "badly", "never"]), st.booleans(),
                     message_lists()).map(
        lambda t: {"prelude": t[0], "release": t[1], "policy": t[2], "conn2_custom_exc": t[3], "messages": t[4]})


def case_from_bytes(data):
    """decode a fuzzer input into the history it stands for (None when the bytes do not decode to one)"""
    from hypothesis import given
    box = []

    @given(fuzz_cases())
    def capture(case):
        box.append(case)
    capture.hypothesis.fuzz_one_input(bytes(data))
    return box[0] if box else None


def plan(tier, scale):
    n, sh = (100, 12) if tier == "quick" else (2500, 14)
    out = [{"part": "histories", "n": int(n * scale)} for _ in range(sh)]
    # coverage-guided campaigns over the same grammar (libFuzzer's bytes -> Hypothesis -> history), oracle inside the target
    out += [{"part": "atheris", "runs": int((300 if tier == "quick" else 8000) * scale)} for _ in range(1 if tier == "quick" else 4)]
    return out


def rejudge(data, rec):
    case = case_from_bytes(data)
    if case is None:
        return []
    try:
        return check(case, rec)
    finally:
        cleanup_modules()


def run_shard(desc, seed, rec, tier):
    if desc["part"] == "atheris":
        from vlib import fuzz
        fuzz.run_campaign(rec, "c07_history", desc["runs"], seed, "random", lambda data: rejudge(data, rec))
        return
    try:
        drive(rec, cases(), lambda c: check(c, rec), desc["n"], seed)
    finally:
        cleanup_modules()


def replay(case, rec):
    try:
        return check(case, rec)
    finally:
        cleanup_modules()
