"""C05 - packets arrive whole, in order and unaltered however the transport fragments."""
import errno
import hashlib
import os
import socket
import threading

from hypothesis import strategies as st

from vlib.hyp import drive
from vlib.runner import Failure

ID = "C05"
LEVEL = "exploration"
RULE = ("case = (packet sequence with sizes from named buckets around every boundary in the code: 0, 1, 2999/3000/3001, "
        "63993..63996, 64000+-1, 128000+-1, up to 600000, and a few packets around and beyond one mebibyte (2^20-1 … 2^22+1); compressible or incompressible content; compression on either, both "
        "or neither end; stream kind: the real SocketStream over a scripted fake socket, the real PipeStream over a scripted "
        "os shim, or (thorough) the real SocketStream over a kernel socketpair with tiny buffers and a 1 ms timeout; "
        "fragmentation script = how many bytes each recv/send/os.read/os.write moves; transient script = socket.timeout / "
        "EAGAIN / EWOULDBLOCK before reads; fault = end-of-stream or I/O error at a byte offset of the wire (inside the "
        "header, at the header/payload edge, inside the payload, at the newline, at a packet boundary) or a write error after "
        "k bytes). oracle: without fault the received sequence equals the sent one, bytes-exact and in order, and the wire is "
        "consumed exactly; with a fault every packet wholly before the fault is delivered unaltered, the first recv/send that "
        "needs the faulty byte raises EOFError, the stream is closed afterwards and stays failing, and nothing that is not "
        "the next sent packet is ever returned. non-trivial = a packet > 1 byte delivered through >= 2 fragments, or a fault "
        "strictly inside a packet. distinct by case hash.")
ASSUMPTIONS = ["the fake socket behaves like a blocking socket with a timeout (send moves >= 1 byte or raises)",
               "Win32 streams are out of scope on this platform"]

SIZES = [0, 1, 2, 5, 100, 2999, 3000, 3001, 63993, 63994, 63995, 63996, 63999, 64000, 64001, 127999, 128000, 128001]
BIG = [200000, 300001, 600000]
HUGE = [(1 << 20) - 1, 1 << 20, (1 << 20) + 1, (1 << 21) + 5, 2500003, (1 << 22) + 1]


def payload(seed, size, compressible):
    if size == 0:
        return b""
    if compressible:
        unit = hashlib.shake_256(b"c05:%d" % seed).digest(32)
        return (unit * (size // 32 + 1))[:size]
    return hashlib.shake_256(b"c05:%d" % seed).digest(size)


class WouldBlockForever(Exception):
    """the code under test asked the transport for bytes nobody will ever send (harness observation)"""


ERRS = {"EPIPE": errno.EPIPE, "ECONNRESET": errno.ECONNRESET, "EHOSTUNREACH": errno.EHOSTUNREACH, "ENETDOWN": errno.ENETDOWN,
        "ENOBUFS": errno.ENOBUFS, "EIO": errno.EIO}


def io_error(name, default):
    """the OS error an injected fault raises: connection-class ones, other errnos, or a timeout while writing"""
    if name == "timeout":
        return socket.timeout("timed out")
    code = ERRS.get(name, default)
    return OSError(code, os.strerror(code))


class FakeSocket(object):
    def __init__(self, data=b"", frags=(), transients=(), eof=True, read_error_at=None, write_error_after=None):
        self.inp = bytearray(data)
        self.out = bytearray()
        self.frags = list(frags) or [1 << 30]
        self.fi = 0
        self.transients = list(transients)
        self.eof = eof
        self.read_error_at = read_error_at
        self.write_error_after = write_error_after
        self.consumed = 0
        self.closed = False
        self.nrecv = 0
        self.nsend = 0
        self.max_fragments_for_one_read = 0
        self.timeout = None

    def _frag(self):
        f = self.frags[self.fi % len(self.frags)]
        self.fi += 1
        return max(1, f)

    def settimeout(self, t):
        self.timeout = t

    def setblocking(self, b):
        pass

    def getpeername(self):
        return ("fake", 0)

    def fileno(self):
        if self.closed:
            raise socket.error(errno.EBADF, "bad fd")
        return 99

    def shutdown(self, how):
        if self.closed:
            raise socket.error(errno.ENOTCONN, "not connected")

    def close(self):
        self.closed = True

    def recv(self, n):
        if self.closed:
            raise socket.error(errno.EBADF, "recv on closed socket")
        self.nrecv += 1
        if self.transients:
            t = self.transients.pop(0)
            if t == 1:
                raise socket.timeout("timed out")
            if t == 2:
                raise socket.error(errno.EAGAIN, "try again")
            if t == 3:
                raise socket.error(errno.EWOULDBLOCK, "would block")
        if self.read_error_at is not None and self.consumed >= self.read_error_at:
            raise io_error(getattr(self, "err", None) if getattr(self, "err", None) != "timeout" else None, errno.ECONNRESET)
        limit = len(self.inp)
        if self.read_error_at is not None:
            limit = min(limit, self.read_error_at - self.consumed)
        if limit <= 0:
            if self.eof or self.read_error_at is not None:
                if self.read_error_at is not None:
                    raise socket.error(errno.ECONNRESET, "connection reset by peer")
                return b""
            raise WouldBlockForever()
        k = min(n, self._frag(), limit)
        buf = bytes(self.inp[:k])
        del self.inp[:k]
        self.consumed += k
        return buf

    def send(self, data):
        if self.closed:
            raise socket.error(errno.EBADF, "send on closed socket")
        self.nsend += 1
        if self.write_error_after is not None and len(self.out) >= self.write_error_after:
            raise io_error(getattr(self, "err", None), errno.EPIPE)
        k = min(len(data), self._frag())
        if self.write_error_after is not None:
            k = min(k, self.write_error_after - len(self.out))
        self.out += data[:k]
        return k


class FakeFile(object):
    def __init__(self, fd):
        self.fd = fd
        self.closed = False

    def fileno(self):
        if self.closed:
            raise ValueError("I/O operation on closed file")
        return self.fd

    def flush(self):
        pass

    def close(self):
        self.closed = True


class OsShim(object):
    """stands in for the os module inside rpyc.core.stream (PipeStream uses os.read / os.write)"""

    def __init__(self, real, sock):
        self._real = real
        self._sock = sock

    def read(self, fd, n):
        s = self._sock
        if s.read_error_at is not None and s.consumed >= s.read_error_at:
            raise OSError(errno.EIO, "I/O error")
        limit = len(s.inp)
        if s.read_error_at is not None:
            limit = min(limit, s.read_error_at - s.consumed)
        if limit <= 0:
            if s.read_error_at is not None:
                raise OSError(errno.EIO, "I/O error")
            if s.eof:
                return b""
            raise WouldBlockForever()
        s.nrecv += 1
        k = min(n, s._frag(), limit)
        buf = bytes(s.inp[:k])
        del s.inp[:k]
        s.consumed += k
        return buf

    def write(self, fd, data):
        s = self._sock
        s.nsend += 1
        if s.write_error_after is not None and len(s.out) >= s.write_error_after:
            raise OSError(errno.EPIPE, "broken pipe")
        k = min(len(data), s._frag())
        if s.write_error_after is not None:
            k = min(k, s.write_error_after - len(s.out))
        s.out += bytes(data[:k])
        return k

    def __getattr__(self, name):
        return getattr(self._real, name)


def make_stream(kind, sock):
    import rpyc.core.stream as stream
    if kind == "socket":
        return stream.SocketStream(sock), None
    shim = OsShim(stream.os if not isinstance(stream.os, OsShim) else stream.os._real, sock)
    return stream.PipeStream(FakeFile(10), FakeFile(11)), shim


class patched_os(object):
    def __init__(self, shim):
        self.shim = shim

    def __enter__(self):
        import rpyc.core.stream as stream
        if self.shim is not None:
            self.saved = stream.os
            stream.os = self.shim

    def __exit__(self, *a):
        import rpyc.core.stream as stream
        if self.shim is not None:
            stream.os = self.saved


def build_packets(case):
    return [payload(s, n, c) for n, s, c in case["packets"]]


def check(case, rec):
    from rpyc.core.channel import Channel
    from vlib import refcodec
    pk = build_packets(case)
    kind = case["kind"]
    fault = case.get("fault")
    sfr, rfr = case["send_frags"], case["recv_frags"]
    if any(f < 64 for f in sfr + rfr) and sum(len(p) for p in pk) > 6000:
        sfr = [max(f, 4096) for f in sfr]
        rfr = [max(f, 4096) for f in rfr]
    classes = ["fault-error:%s" % fault[2]] if fault and len(fault) > 2 and fault[2] and fault[0] in ("read-error", "write-error") else []
    classes += ["kind:" + kind, "compress:send=%d,recv=%d" % (case["scomp"], case["rcomp"]),
               "transients:%d" % len(case["transients"]), "fault:%s" % (fault[0] if fault else "none")]
    for p in pk:
        n = len(p)
        classes.append("size:" + ("0" if n == 0 else "1-2999" if n < 3000 else "3000" if n == 3000 else "3001-63992" if n < 63993
                                  else "63993-64001" if n <= 64001 else ">64001"))
    fails = []
    # ---- sending
    ssock = FakeSocket(frags=sfr, write_error_after=fault[1] if fault and fault[0] == "write-error" else None)
    ssock.err = fault[2] if fault and len(fault) > 2 else None
    sstream, sshim = make_stream(kind, ssock)
    sch = Channel(sstream, bool(case["scomp"]))
    sent = []
    send_failed = None
    with patched_os(sshim):
        for i, p in enumerate(pk):
            try:
                sch.send(p)
                sent.append(p)
            except EOFError:
                send_failed = i
                break
            except WouldBlockForever:
                fails.append(Failure("harness", "send blocked", case))
                break
            except Exception as ex:
                fails.append(Failure("send-raised", type(ex).__name__, case, str(ex)[:100], "EOFError or success"))
                send_failed = i
                break
        if send_failed is not None:
            if not sstream.closed:
                fails.append(Failure("not-closed-after-write-failure", kind, case))
            try:
                sch.send(b"again")
                fails.append(Failure("send-after-failure", "succeeded", case))
            except EOFError:
                pass
            except Exception as ex:
                fails.append(Failure("send-after-failure", type(ex).__name__, case))
    wire = bytes(ssock.out)
    if fault is None or fault[0] != "write-error":
        if send_failed is not None:
            fails.append(Failure("send-failed-without-fault", kind, case))
        else:
            # the wire must be exactly one well-formed frame per packet
            try:
                frames = refcodec.parse_frames(wire)
                if [f[1] for f in frames] != pk:
                    fails.append(Failure("wire", "frames on the wire are not the packets sent", case))
            except Exception as ex:
                fails.append(Failure("wire", "not a sequence of whole frames: %s" % str(ex).split(" at ")[0][:40], case))
    # ---- receiving
    cut = None
    if fault and fault[0] in ("eof", "read-error"):
        cut = min(fault[1], len(wire))
    rsock = FakeSocket(wire if cut is None or fault[0] == "read-error" else wire[:cut], frags=rfr,
                       transients=case["transients"] if kind == "socket" else (), eof=True,
                       read_error_at=cut if fault and fault[0] == "read-error" else None)
    rsock.err = fault[2] if fault and len(fault) > 2 else None
    rstream, rshim = make_stream(kind, rsock)
    rch = Channel(rstream, bool(case["rcomp"]))
    avail = len(wire) if cut is None else cut
    # which packets lie wholly inside the available prefix of the wire?
    try:
        bounds = []
        pos = 0
        for fl, pay, n in refcodec.parse_frames(wire):
            pos += 6 + n
            bounds.append(pos)
    except Exception:
        bounds = []
        pos = 0
        ok_frames = 0
        while pos + 5 <= len(wire):
            n = int.from_bytes(wire[pos:pos + 4], "big")
            if pos + 6 + n > len(wire):
                break
            pos += 6 + n
            bounds.append(pos)
    whole = sum(1 for b in bounds if b <= avail)
    expect = (sent if send_failed is None else pk[:len(bounds)])[:whole]
    got = []
    ended = None
    fragments_before = rsock.nrecv
    with patched_os(rshim):
        for i in range(len(pk) + 2):
            before = rsock.nrecv
            try:
                d = rch.recv()
            except EOFError:
                ended = "EOFError"
                break
            except WouldBlockForever:
                ended = "blocked"
                break
            except Exception as ex:
                ended = type(ex).__name__
                fails.append(Failure("recv-raised", type(ex).__name__, case, str(ex)[:100], "packet or EOFError"))
                break
            got.append(d)
            rsock.max_fragments_for_one_read = max(rsock.max_fragments_for_one_read, rsock.nrecv - before)
            if len(got) > len(expect):
                break
        for i, d in enumerate(got):
            if i >= len(expect) or d != expect[i]:
                kind_ = "extra" if i >= len(expect) else ("shortened" if len(d) < len(expect[i]) else
                                                         "padded-or-merged" if len(d) > len(expect[i]) else "altered")
                fails.append(Failure("received", "%s packet #%d" % (kind_, i), case, len(d), len(expect[i]) if i < len(expect) else None))
                break
        else:
            if len(got) < len(expect):
                fails.append(Failure("received", "packet lost (got %d of %d)" % (len(got), len(expect)), case, ended))
            elif ended != "EOFError":
                fails.append(Failure("end-of-stream", "reader did not get EOFError (%s)" % ended, case))
        if ended == "EOFError":
            if not rstream.closed:
                fails.append(Failure("not-closed-after-read-failure", kind, case))
            for op in ("recv", "send"):
                try:
                    rch.recv() if op == "recv" else rch.send(b"x")
                    fails.append(Failure("use-after-failure", op + " succeeded on a failed stream", case))
                except EOFError:
                    pass
                except Exception as ex:
                    fails.append(Failure("use-after-failure", "%s raised %s" % (op, type(ex).__name__), case))
        if not fault and rsock.inp and ended == "EOFError":
            fails.append(Failure("wire", "bytes left unread", case, len(rsock.inp)))
    frag_nontrivial = any(len(p) > 1 for p in pk) and (rsock.max_fragments_for_one_read >= 2 or ssock.nsend > len(pk) * 3)
    inside = bool(fault) and cut is not None and cut not in ([0] + bounds)
    if fault and fault[0] == "write-error":
        inside = True
    classes.append("fragmented" if frag_nontrivial else "unfragmented")
    if inside:
        classes.append("fault-inside-packet")
    rec.case(case, frag_nontrivial or inside, classes)
    return fails[:3]


# ---- kernel socketpair (thorough) --------------------------------------------------------------------------------
def check_kernel(case, rec):
    from rpyc.core.channel import Channel
    from rpyc.core.stream import SocketStream
    pk = build_packets(case)
    a, b = socket.socketpair()
    try:
        a.setsockopt(socket.SOL_SOCKET, socket.SO_SNDBUF, 2048)
        b.setsockopt(socket.SOL_SOCKET, socket.SO_RCVBUF, 2048)
        b.settimeout(0.001)
        a.settimeout(5)
        sch = Channel(SocketStream(a), bool(case["scomp"]))
        rch = Channel(SocketStream(b), bool(case["rcomp"]))
        err = []

        def sender():
            try:
                for p in pk:
                    sch.send(p)
                if case.get("abrupt"):
                    a.close()
            except Exception as ex:
                err.append(ex)
        t = threading.Thread(target=sender)
        t.daemon = True
        t.start()
        got = []
        problems = []

        def receiver():
            for i in range(len(pk)):
                try:
                    got.append(rch.recv())
                except EOFError:
                    problems.append("EOFError before all packets arrived")
                    break
                except Exception as ex:
                    problems.append("%s: %s" % (type(ex).__name__, ex))
                    break
        r = threading.Thread(target=receiver)
        r.daemon = True
        r.start()
        r.join(6)
        stuck = r.is_alive()
        if stuck:
            # the reader wants bytes nobody will send (or lost some): unblock it and report
            problems.append("reader still waiting after 6 s although everything was sent")
            for s in (a, b):
                try:
                    s.shutdown(socket.SHUT_RDWR)
                except Exception:
                    pass
            r.join(5)
        t.join(20)
        rec.case(case, any(len(p) > 2048 for p in pk), ["kind:kernel-socketpair"])
        if err:
            return [Failure("kernel-send", type(err[0]).__name__, case, str(err[0])[:100])]
        if got != pk:
            i = next((i for i, (x, y) in enumerate(zip(got, pk)) if x != y), min(len(got), len(pk)))
            return [Failure("received", "kernel socketpair: packet #%d differs or missing" % i, case, problems)]
        return []
    finally:
        for s in (a, b):
            try:
                s.close()
            except Exception:
                pass


def cases(big=False):
    size = st.one_of(st.sampled_from(SIZES), st.sampled_from(SIZES), st.integers(0, 400), st.integers(2990, 3010),
                     st.integers(63985, 64010))
    if big:
        size = st.one_of(size, st.sampled_from(BIG))
    pkt = st.tuples(size, st.integers(0, 10 ** 6), st.booleans()).map(list)
    frag = st.sampled_from([1, 2, 4, 5, 6, 7, 100, 4096, 63999, 64000, 64001, 1 << 30])
    frags = st.lists(frag, min_size=1, max_size=6)

    def with_fault(c):
        pk = [(n, s, co) for n, s, co in c["packets"]]
        total = sum(n + 6 for n, _, _ in pk)       # upper bound on the wire length (uncompressed)
        pos = st.one_of(st.integers(0, 12), st.integers(0, max(1, total)),
                        st.sampled_from([0, 1, 4, 5, 6] + [x for n, _, _ in pk[:3] for x in (n + 5, n + 6, n + 4) if x >= 0]))
        fault = st.one_of(st.none(), st.tuples(st.sampled_from(["eof", "eof", "read-error", "write-error"]), pos,
                                               st.sampled_from([None, None, "EPIPE", "ECONNRESET", "EHOSTUNREACH", "ENETDOWN", "ENOBUFS",
                                                                "EIO", "timeout"])).map(list))
        return fault.map(lambda f: dict(c, fault=f))
    base = st.fixed_dictionaries({
        "part": st.just("fake"), "packets": st.lists(pkt, min_size=1, max_size=6), "kind": st.sampled_from(["socket", "socket", "pipe"]),
        "scomp": st.integers(0, 1), "rcomp": st.integers(0, 1), "send_frags": frags, "recv_frags": frags,
        "transients": st.lists(st.integers(1, 3), max_size=3)})
    return base.flatmap(with_fault)


def huge_cases():
    """packets far beyond every chunk size and beyond a mebibyte (few cases, coarse fragments: they are slow)"""
    pkt = st.tuples(st.sampled_from(HUGE), st.integers(0, 10 ** 6), st.sampled_from([True, True, False])).map(list)
    small = st.tuples(st.sampled_from([0, 1, 5, 3001]), st.integers(0, 10 ** 6), st.booleans()).map(list)
    frags = st.lists(st.sampled_from([63999, 64000, 64001, 1 << 30]), min_size=1, max_size=3)
    return st.fixed_dictionaries({
        "part": st.just("fake"), "packets": st.tuples(st.lists(small, max_size=1), pkt, st.lists(small, max_size=2)).map(
            lambda t: t[0] + [t[1]] + t[2]),
        "kind": st.sampled_from(["socket", "pipe"]), "scomp": st.integers(0, 1), "rcomp": st.integers(0, 1),
        "send_frags": frags, "recv_frags": frags, "transients": st.just([]), "fault": st.none()})


def kernel_cases():
    size = st.one_of(st.sampled_from(SIZES), st.integers(0, 9000))
    pkt = st.tuples(size, st.integers(0, 10 ** 6), st.booleans()).map(list)
    return st.fixed_dictionaries({"part": st.just("kernel"), "packets": st.lists(pkt, min_size=1, max_size=5),
                                  "scomp": st.integers(0, 1), "rcomp": st.integers(0, 1)})


def plan(tier, scale):
    if tier == "quick":
        return ([{"part": "fake", "n": int(220 * scale), "big": False} for _ in range(10)] + [{"part": "kernel", "n": int(25 * scale)}]
                + [{"part": "huge", "n": int(6 * scale)} for _ in range(3)])
    return ([{"part": "fake", "n": int(5000 * scale), "big": i % 3 == 0} for i in range(14)]
            + [{"part": "kernel", "n": int(200 * scale)} for _ in range(2)] + [{"part": "huge", "n": int(60 * scale)} for _ in range(4)])


def run_shard(desc, seed, rec, tier):
    if desc["part"] == "fake":
        drive(rec, cases(desc.get("big", False)), lambda c: check(c, rec), desc["n"], seed)
    elif desc["part"] == "huge":
        drive(rec, huge_cases(), lambda c: check(c, rec), desc["n"], seed, shrink_budget=4)
    else:
        drive(rec, kernel_cases(), lambda c: check_kernel(c, rec), desc["n"], seed, shrink_budget=6)


def replay(case, rec):
    return check(case, rec) if case["part"] == "fake" else check_kernel(case, rec)
