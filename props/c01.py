"""C01 - remote calls compute what a local call would, at any nesting depth."""
import collections
import functools
import types

from hypothesis import strategies as st

from vlib import vals
from vlib.hyp import drive
from vlib.pair import Pair, is_netref
from vlib.runner import Failure
from vlib import simkernel as sk

ID = "C01"
LEVEL = "exploration"
RULE = ("case = call tree (grammar: ret/raise/call[same|other peer]/call-an-argument/seq/mutate-a-reference, with positional "
        "and keyword arguments that are immutable values, nested tuples mixing values and references, lists/dicts/"
        "counter objects by reference, and callables) x configuration (default / public attrs). The same tree is run by "
        "the same interpreter once with both 'peers' in one process and plain calls (reference model) and once across a "
        "real connection pair. oracle: same root outcome (value or exception class+args), same per-node invocation "
        "counts, same sequence of (node, executing peer, described arguments), same final state of every lent object, "
        "and every reference is a proxy exactly when it is foreign (a reference handed back is the original object). "
        "non-trivial = depth >= 2 with calls in both directions (a real callback). distinct by program hash.")
ASSUMPTIONS = ["both peers live in one interpreter; exception payload fidelity beyond class + plain args is C09's business"]

EXC = dict((n, getattr(__builtins__, n) if not isinstance(__builtins__, dict) else __builtins__[n]) for n in
           ["KeyError", "ValueError", "LookupError", "IndexError", "ZeroDivisionError", "TypeError", "RuntimeError",
            "OSError", "AttributeError", "Exception", "ArithmeticError", "NotImplementedError", "UnicodeError"])
KWNAMES = ["a", "b", "key", "x_1"]


class Counter_(object):
    def __init__(self):
        self.n = 0

    def exposed_get(self):
        return self.n

    def exposed_bump(self, by=1):
        self.n += by
        return self.n
    get = exposed_get
    bump = exposed_bump


Point = collections.namedtuple("Point", "x y")


class Abort(Exception):
    pass


class World(object):
    def __init__(self, prog, distributed, pair=None):
        self.distributed = distributed
        self.pair = pair
        self.nodes = []
        self.log = []
        self.counts = collections.Counter()
        self.objs = []
        self.owner = []
        self.problems = []
        self.stats = collections.Counter()
        self.root_id = self.index(prog)

    def index(self, node):
        """flatten: every body gets an id"""
        nid = len(self.nodes)
        self.nodes.append(node)
        return nid

    def register(self, obj, side):
        self.objs.append(obj)
        self.owner.append(side.name)
        return obj

    def ident(self, x):
        tgt = self.pair.resolve(x) if (self.distributed and is_netref(x)) else x
        if tgt is Counter_:
            return None      # the class object is shared by both simulated peers: it has no single owner
        for i, o in enumerate(self.objs):
            if o is tgt:
                return i
        return None

    def describe(self, x, here, depth=0):
        """what `here` can observe of x using only operations a proxy forwards; identical for proxy and target"""
        if vals.plain(x):
            return ("v", vals.canon(x))
        if type(x) is tuple:
            return ("t",) + tuple(self.describe(e, here, depth + 1) for e in x)
        i = self.ident(x)
        if i is not None and self.distributed:
            foreign = self.owner[i] != here.name
            if foreign != is_netref(x):
                self.problems.append(("identity", "own object arrived as a proxy" if is_netref(x) else
                                      "foreign object arrived as a local object", {"obj": i, "at": here.name}))
        if depth > 6:
            return ("deep",)
        cls = x.__class__
        if cls is types.FunctionType:
            return ("obj", i, "fn")
        if cls is type:
            return ("obj", i, "class")
        if cls is list:
            return ("obj", i, "list", len(x)) + tuple(self.describe(e, here, depth + 1) for e in x)
        if cls is dict:
            return ("obj", i, "dict") + tuple((self.describe(k, here, depth + 1), self.describe(x[k], here, depth + 1))
                                              for k in x)
        if cls is Counter_:
            return ("obj", i, "ctr", x.get())
        if cls is Point:
            return ("obj", i, "namedtuple", len(x), self.describe(x[0], here, depth + 1), self.describe(x[1], here, depth + 1))
        return ("obj", i, "?", getattr(cls, "__name__", "?"))

    def snapshot(self):
        out = []
        for o in self.objs:
            if type(o) is list:
                out.append(["list"] + [vals.canon(e) if vals.plain(e) else "<obj>" for e in o])
            elif type(o) is dict:
                out.append(["dict"] + sorted([vals.canon(k), vals.canon(v) if vals.plain(v) else "<obj>"] for k, v in o.items()))
            elif type(o) is Counter_:
                out.append(["ctr", o.n])
            elif o is Counter_:
                out.append(["class"])
            elif type(o) is Point:
                out.append(["namedtuple", vals.canon(tuple(o))])
            else:
                out.append(["fn"])
        return out


class Side(object):
    def __init__(self, world, name):
        self.w = world
        self.name = name
        self.other = None
        self.conn = None

    # ---- entering a body (this is "the target callable runs") ----
    def run_body(self, nid, args, kwargs):
        w = self.w
        w.counts[nid] += 1
        if sum(w.counts.values()) > 100:
            raise Abort("program too long")      # well below the interpreter's recursion limit (about 4 frames per invocation)
        w.log.append([nid, self.name, [self.w.describe(a, self) for a in args],
                      sorted([k, self.w.describe(v, self)] for k, v in kwargs.items())])
        return self.eval(w.nodes[nid], tuple(args), dict(kwargs), nid)

    def call_other(self, nid, args, kwargs):
        if self.w.distributed:
            return self.conn.root.run(nid, *args, **kwargs)
        return self.other.run_body(nid, args, kwargs)

    def body_id(self, parent, key, node):
        """stable id of a child body: allocated on first use, same order in both runs"""
        table = self.w.__dict__.setdefault("_ids", {})
        k = (parent, key)
        if k not in table:
            table[k] = self.w.index(node)
        return table[k]

    def mkarg(self, a, args, kwargs, nid, path):
        t = a[0]
        if t == "val":
            return vals.build(a[1])
        if t == "mix":
            return tuple(self.mkarg(x, args, kwargs, nid, path + (i,)) for i, x in enumerate(a[1]))
        if t == "ref":
            if a[1] == "nt":
                return self.w.register(Point(3, "y"), self)     # a tuple SUBCLASS instance: travels by reference
            if a[1] == "cls":
                return self.w.register(Counter_, self)        # the class itself: a callable that builds an instance
            obj = {"list": lambda: [1, "two"], "dict": lambda: {"k": 1, 2: "v"}, "ctr": Counter_, "empty": list}[a[1]]()
            return self.w.register(obj, self)
        if t == "fn":
            bid = self.body_id(nid, ("fn",) + path, a[1])
            side = self

            def fn(*fa, **fkw):
                return side.run_body(bid, fa, fkw)
            return self.w.register(fn, self)
        if t == "pass":
            return args[a[1] % len(args)] if args else None
        raise ValueError(a)

    def eval(self, node, args, kwargs, nid, path=()):
        t = node[0]
        w = self.w
        if t == "ret":
            e = node[1]
            if e[0] == "lit":
                return vals.build(e[1])
            if e[0] == "arg":
                return args[e[1] % len(args)] if args else None
            if e[0] == "desc":
                return w.describe(args[e[1] % len(args)], self) if args else ("none",)
            if e[0] == "kwarg":
                return kwargs.get(e[1], "missing")
            if e[0] == "all":
                return (args, tuple(sorted(kwargs.items())))
            raise ValueError(e)
        if t == "raise":
            raise EXC[node[1]](*[vals.build(s) for s in node[2]])
        if t == "seq":
            return tuple(self.eval(n, args, kwargs, nid, path + ("s", i)) for i, n in enumerate(node[1]))
        if t == "mut":
            if not args:
                return None
            tgt = args[node[1] % len(args)]
            v = vals.build(node[2])
            cls = getattr(tgt, "__class__", None)
            if cls is list:
                tgt += (v,)
            elif cls is dict:
                tgt["m"] = v
            elif cls is Counter_:
                tgt.bump(2)
            return None
        if t in ("call", "callarg"):
            if t == "call":
                _, where, body, cargs, ckw, catch = node
            else:
                _, idx, cargs, ckw, catch = node
            actual = [self.mkarg(a, args, kwargs, nid, path + ("a", i)) for i, a in enumerate(cargs)]
            akw = dict((name, self.mkarg(a, args, kwargs, nid, path + ("k", name))) for name, a in ckw)
            try:
                if t == "call":
                    bid = self.body_id(nid, path + ("body",), body)
                    if where == "same":
                        return self.run_body(bid, actual, akw)
                    w.stats["cross:" + self.name] += 1
                    try:
                        return self.call_other(bid, actual, akw)
                    except Abort:
                        raise
                    except Exception as ex:
                        if not w.distributed:
                            hops = w.__dict__.setdefault("_hops", {})
                            hops[id(ex)] = hops.get(id(ex), 0) + 1
                            w.stats["exc-max-hops"] = max(w.stats["exc-max-hops"], hops[id(ex)])
                        raise
                f = args[idx % len(args)] if args else None
                if getattr(f, "__class__", None) not in (types.FunctionType, type):
                    return ("notcallable",)
                if f.__class__ is type:
                    actual, akw = [], {}
                w.stats["callarg"] += 1
                return f(*actual, **akw)
            except Abort:
                raise
            except Exception as ex:
                if catch is not None and isinstance(ex, tuple(EXC[n] for n in catch[0])):
                    w.stats["caught"] += 1
                    info = ("exc", type(ex).__name__, vals.canon(ex.args) if vals.plain(ex.args) else repr(ex.args))
                    return self.eval(catch[1], (info,), {}, nid, path + ("h",))
                raise
        raise ValueError(node)


def run_world(prog, distributed, config=None):
    """returns (outcome, world)"""
    import rpyc

    def go(world, side_a):
        try:
            r = side_a.run_body(world.root_id, (), {})
            return ["value", world.describe(r, side_a)]
        except Abort:
            raise
        except Exception as ex:
            return ["raised", type(ex).__name__, vals.canon(ex.args) if vals.plain(ex.args) else repr(ex.args)]

    if not distributed:
        w = World(prog, False)
        a, b = Side(w, "A"), Side(w, "B")
        a.other, b.other = b, a
        try:
            return go(w, a), w, False
        except Abort:
            return None, w, True

    class ProgService(rpyc.Service):
        def __init__(self, side):
            self.side = side

        def exposed_run(self, nid, *args, **kwargs):
            return self.side.run_body(nid, args, kwargs)

    w = World(prog, True)
    a, b = Side(w, "A"), Side(w, "B")
    a.other, b.other = b, a
    cfg = dict(config or {}, sync_request_timeout=60)
    with Pair(ProgService(a), ProgService(b), cfg, cfg) as p:
        w.pair = p
        a.conn, b.conn = p.a, p.b
        t = p.run(go, w, a)
        dl = p.k.deadlock
        if t.exc is not None and not isinstance(t.exc, Abort):
            w.problems.append(("harness-or-baseexception", type(t.exc).__name__, (t.exc_tb or "")[-400:]))
        outcome = t.result
        if dl:
            w.problems.append(("deadlock", "call tree never completed", dl))
        aborted = isinstance(t.exc, Abort)
    return outcome, w, aborted


CONFIGS = {"default": {}, "public": {"allow_public_attrs": True}}


def prog_stats(node, depth=0, acc=None, side=0):
    acc = acc if acc is not None else {"depth": 0, "nodes": 0, "dirs": set(), "kwargs": False, "mix": False, "fn": False}
    acc["nodes"] += 1
    acc["depth"] = max(acc["depth"], depth)
    t = node[0]
    if t == "call":
        nside = side if node[1] == "same" else 1 - side
        if node[1] != "same":
            acc["dirs"].add((side, nside))
        if node[4]:
            acc["kwargs"] = True
        for a in list(node[3]) + [x[1] for x in node[4]]:
            _arg_stats(a, depth, acc, side)
        prog_stats(node[2], depth + 1, acc, nside)
        if node[5]:
            prog_stats(node[5][1], depth, acc, side)
    elif t == "callarg":
        for a in list(node[2]) + [x[1] for x in node[3]]:
            _arg_stats(a, depth, acc, side)
        if node[4]:
            prog_stats(node[4][1], depth, acc, side)
    elif t == "seq":
        for n in node[1]:
            prog_stats(n, depth, acc, side)
    return acc


def _arg_stats(a, depth, acc, side):
    if a[0] == "mix":
        acc["mix"] = True
        for x in a[1]:
            _arg_stats(x, depth, acc, side)
    elif a[0] == "fn":
        acc["fn"] = True
        prog_stats(a[1], depth + 1, acc, side)


def check(case, rec):
    prog = case["prog"]
    stc = prog_stats(prog)
    ref_out, ref_w, ref_aborted = run_world(prog, False)
    if ref_aborted:
        rec.case(case, False, ["skipped:program-too-long"])
        return []
    got_out, got_w, aborted = run_world(prog, True, CONFIGS[case["config"]])
    both_dirs = ref_w.stats["cross:A"] > 0 and ref_w.stats["cross:B"] + ref_w.stats["callarg"] > 0
    nontrivial = stc["depth"] >= 2 and both_dirs
    classes = ["config:" + case["config"], "depth:%d" % min(stc["depth"], 6),
               "cross-calls:%s" % ("0" if not ref_w.stats["cross:A"] else ("1-3" if ref_w.stats["cross:A"] + ref_w.stats["cross:B"] <= 3 else "4+")),
               "callbacks:%s" % bool(ref_w.stats["callarg"] or ref_w.stats["cross:B"])]
    if ref_w.stats["exc-max-hops"] >= 2:
        classes.append("exception-crossed>=2-hops")
    if ref_w.stats["caught"]:
        classes.append("exception-caught-remotely")
    for k_ in ("kwargs", "mix", "fn"):
        if stc[k_]:
            classes.append("has:" + k_)
    rec.case(case, nontrivial, classes)
    fails = []
    if aborted:
        return fails
    for cl, key, det in got_w.problems[:2]:
        fails.append(Failure(cl, key, case, det))
    if got_out != ref_out:
        kind = "%s-vs-%s" % (got_out[0] if got_out else None, ref_out[0])
        if got_out and got_out[0] == ref_out[0] == "raised":
            kind = "class" if got_out[1] != ref_out[1] else "args"
        fails.append(Failure("outcome", kind, case, got_out, ref_out))
    if dict(got_w.counts) != dict(ref_w.counts):
        diff = sorted((n, got_w.counts.get(n, 0), ref_w.counts.get(n, 0)) for n in set(got_w.counts) | set(ref_w.counts)
                      if got_w.counts.get(n, 0) != ref_w.counts.get(n, 0))
        more = any(g > r for _, g, r in diff)
        fails.append(Failure("invocation-count", "ran-more-than-once" if more else "did-not-run", case, diff[:5]))
    elif got_w.log != ref_w.log:
        i = next((i for i, (x, y) in enumerate(zip(got_w.log, ref_w.log)) if x != y), min(len(got_w.log), len(ref_w.log)))
        g = got_w.log[i] if i < len(got_w.log) else None
        r = ref_w.log[i] if i < len(ref_w.log) else None
        what = "peer" if (g and r and g[1] != r[1]) else ("args" if (g and r and g[2] != r[2]) else "kwargs")
        fails.append(Failure("received-arguments", what, case, g, r))
    if got_w.snapshot() != ref_w.snapshot():
        fails.append(Failure("final-state", "lent objects differ", case, got_w.snapshot()[:6], ref_w.snapshot()[:6]))
    return fails


# ---- generator ---------------------------------------------------------------------------------------------
_val = vals.immutables(big=False, surrogates=False, max_leaves=3)


@functools.lru_cache(maxsize=None)
def arg(depth):
    base = st.one_of(_val.map(lambda s: ["val", s]), st.sampled_from(["list", "dict", "ctr", "empty", "cls", "ctr", "nt"]).map(lambda k: ["ref", k]),
                     st.integers(0, 3).map(lambda i: ["pass", i]))
    if depth <= 0:
        return base
    sub = st.deferred(lambda: arg(depth - 1))
    return st.one_of(base, st.lists(sub, min_size=1, max_size=3).map(lambda xs: ["mix", xs]),
                     st.deferred(lambda: node(depth - 1)).map(lambda n: ["fn", n]),
                     st.deferred(lambda: node(depth - 1)).map(lambda n: ["fn", n]))


def kwargs(depth):
    return st.lists(st.tuples(st.sampled_from(KWNAMES), arg(depth)).map(list), max_size=2,
                    unique_by=lambda t: t[0])


def catch(depth):
    return st.one_of(st.none(), st.none(), st.tuples(st.lists(st.sampled_from(sorted(EXC)), min_size=1, max_size=2),
                                                     st.deferred(lambda: node(max(0, depth - 1)))).map(list))


@functools.lru_cache(maxsize=None)
def node(depth):
    expr = st.one_of(_val.map(lambda s: ["lit", s]), st.integers(0, 3).map(lambda i: ["arg", i]),
                     st.integers(0, 3).map(lambda i: ["desc", i]), st.sampled_from(KWNAMES).map(lambda n: ["kwarg", n]),
                     st.just(["all"]))
    leaf = st.one_of(expr.map(lambda e: ["ret", e]), expr.map(lambda e: ["ret", e]),
                     st.tuples(st.sampled_from(sorted(EXC)), st.lists(_val, max_size=2)).map(lambda t: ["raise", t[0], t[1]]),
                     st.tuples(st.integers(0, 3), _val).map(lambda t: ["mut", t[0], t[1]]))
    if depth <= 0:
        return leaf
    sub = st.deferred(lambda: node(depth - 1))
    call = st.tuples(st.sampled_from(["other", "other", "other", "same"]), sub, st.lists(arg(min(depth - 1, 2)), max_size=3),
                     kwargs(min(depth - 1, 1)), catch(depth)).map(lambda t: ["call"] + list(t))
    callarg = st.tuples(st.integers(0, 3), st.lists(arg(min(depth - 1, 1)), max_size=2), kwargs(0), catch(depth)).map(
        lambda t: ["callarg"] + list(t))
    seq = st.lists(sub, min_size=2, max_size=3).map(lambda ns: ["seq", ns])
    return st.one_of(leaf, call, call, call, call, callarg, callarg, callarg, seq)


def root(depth):
    """the root always crosses the connection with at least one callable or reference argument"""
    a = st.one_of(arg(2), node(depth - 1).map(lambda n: ["fn", n]), node(depth - 1).map(lambda n: ["fn", n]))
    return st.tuples(node(depth), st.lists(a, min_size=1, max_size=3), kwargs(1), catch(1)).map(
        lambda t: ["call", "other"] + list(t))


@functools.lru_cache(maxsize=None)
def deep(depth, has_fn):
    """constructive generator of ping-pong chains: a callee that received a callable as argument 0 calls it back
    (callback into the caller), a callable's body calls across again, and so on to `depth`"""
    leaf = node(0)
    if depth <= 0:
        return leaf
    extra = st.lists(arg(1), max_size=2)
    fnarg = st.deferred(lambda: deep(depth - 1, False)).map(lambda n: ["fn", n])
    call = st.tuples(st.sampled_from(["other", "other", "other", "same"]), st.deferred(lambda: deep(depth - 1, True)), fnarg,
                     extra, kwargs(0), catch(depth)).map(lambda t: ["call", t[0], t[1], [t[2]] + t[3], t[4], t[5]])
    seq = st.tuples(st.deferred(lambda: deep(depth - 1, has_fn)), leaf).map(lambda t: ["seq", list(t)])
    # an instance of a harness class first, then the class itself, which the callee calls (a class is a callable too)
    cls_call = st.sampled_from(["other", "same"]).map(
        lambda w: ["call", "other", ["seq", [["ret", ["desc", 0]], ["callarg", 1, [], [], None]]], [["ref", "ctr"], ["ref", "cls"]], [], None])
    opts = [call, call, call, seq, cls_call]
    if has_fn:
        cb_plain = st.tuples(extra, kwargs(0), catch(depth), st.sampled_from([0, 0, 0, 1, 2])).map(
            lambda t: ["callarg", t[3], t[0], t[1], t[2]])
        cb_fn = st.tuples(fnarg, extra, catch(depth)).map(lambda t: ["callarg", 0, [t[0]] + t[1], [], t[2]])
        opts += [cb_plain, cb_plain, cb_fn]
    return st.one_of(*opts)


def cases():
    progs = st.one_of(st.integers(2, 5).flatmap(root),
                      st.integers(2, 7).flatmap(lambda d: deep(d, False)),
                      st.integers(2, 7).flatmap(lambda d: deep(d, False)))
    return st.fixed_dictionaries({"prog": progs, "config": st.sampled_from(sorted(CONFIGS))})


def plan(tier, scale):
    n, sh = (150, 10) if tier == "quick" else (3000, 14)
    return [{"part": "programs", "n": int(n * scale)} for _ in range(sh)]


def run_shard(desc, seed, rec, tier):
    drive(rec, cases(), lambda c: check(c, rec), desc["n"], seed)


def replay(case, rec):
    return check(case, rec)
