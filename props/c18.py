"""C18 - the registry reflects exactly the live registrations and cannot be knocked over."""
import os
import socket

from hypothesis import strategies as st

from vlib import vals, refcodec
from vlib.hyp import drive
from vlib.runner import Failure

ID = "C18"
LEVEL = "exploration"
RULE = ("case = history (<= 40 steps) of register(host, port, aliases) / unregister(host, port) / query(name in arbitrary "
        "case) / advance the clock, from several hosts and ports with several aliases, interleaved with malformed requests: "
        "arbitrary bytes, every serializable shape in place of (magic, command, args), wrong or non-text magic, unknown text "
        "command, NON-TEXT command, wrong argument count, non-iterable args, alias lists with non-text members, exotic ports, "
        "oversized datagrams, for TCP clients that connect and stay silent, send half a request or close at once, and replies "
        "whose transmission fails with an OS error (message too long, network unreachable, ...). The real "
        "UDPRegistryServer / TCPRegistryServer objects run their real _work/_recv/_send/cmd_* code over a scripted socket with "
        "a virtual clock, one pass per step. oracle: reference map NAME -> {(host, port): last refresh}: a query returns "
        "exactly the members refreshed within the pruning interval, oldest first; added/removed hooks fire exactly once per "
        "membership change; after every malformed request the loop is still running, other hosts' registrations are "
        "untouched and the next well-formed query is answered correctly. non-trivial = a prune or unregister between two "
        "queries of the same name AND >= 1 malformed request. distinct by history hash.")
ASSUMPTIONS = ["one _work() pass per step over a scripted socket; real loopback sockets are sampled in the thorough tier"]

HOSTS = ["10.0.0.1", "10.0.0.2", "10.0.0.3"]
ATTACKER = "66.6.6.6"
PORTS = [18812, 5000, 6000]
ALIASES = ["foo", "Bar", "BAZ", "qux"]
PRUNE = 100.0


class Blocked(BaseException):
    """the registry called a blocking operation that would never return"""


class Clock(object):
    def __init__(self):
        self.now = 1000.0

    def time(self):
        return self.now

    def sleep(self, dt):
        self.now += dt


class FakeUDP(object):
    def __init__(self):
        self.script = []
        self.sent = []
        self.srv = None
        self.timeout = 1.0

    def getsockname(self):
        return ("0.0.0.0", 18811)

    def settimeout(self, t):
        self.timeout = t

    def recvfrom(self, n):
        if not self.script:
            self.srv.active = False
            raise socket.timeout("timed out")
        data, addr = self.script.pop(0)
        if not self.script:
            self.srv.active = False
        return data[:n], addr

    fail_next = None          # an OSError the next transmission of a reply raises (network trouble on the way back)

    def _maybe_fail(self):
        ex, self.fail_next = self.fail_next, None
        if ex is not None:
            self.failed_sends = getattr(self, "failed_sends", 0) + 1
            raise ex

    def sendto(self, data, addr):
        self._maybe_fail()
        self.sent.append((addr, data))

    def close(self):
        pass


class FakeConn(object):
    def __init__(self, listener, addr, behaviour, data):
        self.l = listener
        self.addr = addr
        self.behaviour = behaviour
        self.data = data
        self.timeout = None
        self.closed = False

    def getpeername(self):
        return self.addr

    def settimeout(self, t):
        self.timeout = t

    def recv(self, n):
        if self.behaviour == "silent":
            if self.timeout is None:
                raise Blocked("recv on a silent client without a timeout")
            raise socket.timeout("timed out")
        if self.behaviour == "reset":
            raise socket.error(104, "connection reset by peer")
        d, self.data = self.data[:n], b""
        return d

    def send(self, data):
        self.l._maybe_fail()
        self.l.sent.append((self.addr, data))
        return len(data)

    def close(self):
        self.closed = True

    def shutdown(self, how):
        pass


class FakeTCP(FakeUDP):
    def __init__(self):
        FakeUDP.__init__(self)
        self.conns = []

    def accept(self):
        if not self.script:
            self.srv.active = False
            raise socket.timeout("timed out")
        data, addr, behaviour = self.script.pop(0)
        if not self.script:
            self.srv.active = False
        c = FakeConn(self, addr, behaviour, data)
        self.conns.append(c)
        return c, addr


def make_server(kind, clock, log):
    import logging
    from rpyc.utils import registry
    base = registry.UDPRegistryServer if kind == "udp" else registry.TCPRegistryServer

    class Logged(base):
        def on_service_added(self, name, addrinfo):
            log.append(["added", name, list(addrinfo)])

        def on_service_removed(self, name, addrinfo):
            log.append(["removed", name, list(addrinfo)])
    srv = Logged.__new__(Logged)
    sock = FakeUDP() if kind == "udp" else FakeTCP()
    quiet = logging.getLogger("verif-c18")
    quiet.disabled = True
    registry.RegistryServer.__init__(srv, sock, pruning_timeout=PRUNE, logger=quiet)
    if kind == "tcp":
        srv._connected_sockets = {}
    sock.srv = srv
    return srv, sock


def bad_request(kind, param):
    """-> bytes"""
    v = refcodec.dump
    if kind == "bytes":
        return bytes.fromhex(param)
    if kind == "value":
        return v(vals.build(param))
    if kind == "wrong-magic":
        return v(("RPYX", "QUERY", ("foo",)))
    if kind == "magic-not-text":
        return v((vals.build(param), "QUERY", ("foo",)))
    if kind == "unknown-command":
        return v(("RPYC", "FROBNICATE", ()))
    if kind == "command-not-text":
        return v(("RPYC", vals.build(param), ()))
    if kind == "private-command":
        return v(("RPYC", "_send", ()))
    if kind == "wrong-argc":
        return v(("RPYC", "QUERY", ("a", "b", "c")))
    if kind == "no-args":
        return v(("RPYC", "REGISTER", ()))
    if kind == "args-not-iterable":
        return v(("RPYC", "QUERY", 5))
    if kind == "aliases-not-text":
        return v(("RPYC", "REGISTER", ((1, None, b"x"), 7000)))
    if kind == "aliases-not-iterable":
        return v(("RPYC", "REGISTER", (5, 7000)))
    if kind == "exotic-port":
        return v(("RPYC", "REGISTER", (("foo",), vals.build(param))))
    if kind == "unregister-exotic":
        return v(("RPYC", "UNREGISTER", (vals.build(param),)))
    if kind == "query-not-text":
        return v(("RPYC", "QUERY", (vals.build(param),)))
    if kind == "oversized":
        return v(("RPYC", "QUERY", ("x" * 3000,)))
    if kind == "truncated":
        return v(("RPYC", "QUERY", ("foo",)))[:7]
    raise ValueError(kind)


BAD_KINDS = ["bytes", "value", "wrong-magic", "magic-not-text", "unknown-command", "command-not-text", "private-command",
             "wrong-argc", "no-args", "args-not-iterable", "aliases-not-text", "aliases-not-iterable", "exotic-port",
             "unregister-exotic", "query-not-text", "oversized", "truncated"]
TCP_ONLY = ["silent", "reset", "close-at-once", "half"]


def run_history(case):
    from rpyc.utils import registry
    kind = case["kind"]
    clock = Clock()
    saved_time = registry.time
    registry.time = clock
    log = []
    problems = []
    model = {}            # NAME -> {(host, port): t}
    mlog = []
    stats = {"prunes": 0, "bad": 0}
    try:
        srv, sock = make_server(kind, clock, log)

        def deliver(data, addr, behaviour="normal"):
            sock.sent = []
            sock.script = [(data, addr)] if kind == "udp" else [(data, addr, behaviour)]
            srv.active = True
            try:
                srv._work()
            except Blocked as ex:
                return "blocked: %s" % ex
            except BaseException as ex:
                return "died: %s: %s" % (type(ex).__name__, str(ex)[:80])
            return None

        def reply_of():
            if not sock.sent:
                return None
            try:
                return refcodec.load(sock.sent[-1][1], strict_shortest=False)
            except Exception as ex:
                return "undecodable reply: %s" % ex

        src_port = [40000]

        def addr_of(host):
            src_port[0] += 1
            return (host, src_port[0])

        for i, stp in enumerate(case["steps"]):
            op = stp[0]
            if op == "tick":
                clock.now += stp[1]
                continue
            if op == "sendfail":
                # the reply to the NEXT request cannot be transmitted (message too long, network unreachable, ...)
                sock.fail_next = OSError(stp[1], os.strerror(stp[1]))
                stats["sendfail"] = stats.get("sendfail", 0) + 1
                continue
            reply_lost = sock.fail_next is not None
            if op == "reg":
                host, port, names = HOSTS[stp[1] % 3], PORTS[stp[2] % 3], [ALIASES[a % 4] for a in stp[3]] or ["foo"]
                died = deliver(refcodec.dump(("RPYC", "REGISTER", (tuple(names), port))), addr_of(host))
                for n in names:
                    n = n.upper()
                    grp = model.setdefault(n, {})
                    if (host, port) not in grp:
                        mlog.append(["added", n, [host, port]])
                    grp[(host, port)] = clock.now
                want = "OK"
            elif op == "unreg":
                host, port = HOSTS[stp[1] % 3], PORTS[stp[2] % 3]
                died = deliver(refcodec.dump(("RPYC", "UNREGISTER", (port,))), addr_of(host))
                for n in sorted(model):
                    if (host, port) in model[n]:
                        del model[n][(host, port)]
                        mlog.append(["removed", n, [host, port]])
                    if not model[n]:
                        del model[n]
                want = "OK"
            elif op == "query":
                name = ALIASES[stp[1] % 4]
                name = [name.lower(), name.upper(), name.capitalize(), name.swapcase()][stp[2] % 4]
                died = deliver(refcodec.dump(("RPYC", "QUERY", (name,))), addr_of(HOSTS[stp[3] % 3]))
                n = name.upper()
                grp = model.get(n, {})
                live, stale = [], []
                for a, t in sorted(grp.items(), key=lambda x: x[1]):
                    (stale if t < clock.now - PRUNE else live).append((a, t))
                for a, t in stale:
                    del grp[a]
                    mlog.append(["removed", n, list(a)])
                    stats["prunes"] += 1
                if n in model and not model[n]:
                    del model[n]
                want = ("servers", live)
            else:
                stats["bad"] += 1
                bkind = stp[1]
                if bkind in TCP_ONLY:
                    if kind != "tcp":
                        continue
                    data = {"silent": b"", "reset": b"", "close-at-once": b"", "half": refcodec.dump(("RPYC", "QUERY", ("foo",)))[:9]}[bkind]
                    died = deliver(data, addr_of(ATTACKER), {"silent": "silent", "reset": "reset"}.get(bkind, "normal"))
                else:
                    try:
                        data = bad_request(bkind, stp[2])
                    except Exception:
                        continue
                    died = deliver(data, addr_of(ATTACKER))
                want = None
            # ---- verdicts for this step
            if died:
                problems.append(("loop-died" if died.startswith("died") else "blocked",
                                 "%s after %s" % (died.split(":")[1].strip() if died.startswith("died") else "forever",
                                                  op if op != "bad" else "malformed request (%s)" % stp[1]), died))
                break
            r = reply_of()
            if reply_lost and sock.fail_next is None:
                want = None               # the request was carried out; only its reply could not be sent
            sock.fail_next = None
            if want == "OK":
                if r != "OK":
                    problems.append(("reply", "%s not acknowledged" % op, repr(r)[:80]))
            elif want is not None:
                live = want[1]
                if type(r) is tuple:       # what the attacker registered for itself is its own business
                    r = tuple(x for x in r if not (type(x) is tuple and x and x[0] == ATTACKER))
                if type(r) is not tuple or sorted(map(tuple, r)) != sorted(a for a, _ in live):
                    problems.append(("query-membership", "reply lists other servers than the live registrations",
                                     {"got": repr(r)[:120], "want": [list(a) for a, _ in live]}))
                else:
                    # oldest refresh first; equal timestamps in any order
                    order = [tuple(x) for x in r]
                    ts = dict(live)
                    if any(ts[order[j]] > ts[order[j + 1]] for j in range(len(order) - 1)):
                        problems.append(("query-order", "not oldest refresh first", {"got": order, "want": [a for a, _ in live]}))
            # state and notifications (entries of the attacker's own host are its own business)
            real = dict((n, dict((a, t) for a, t in grp.items() if a[0] != ATTACKER)) for n, grp in srv.services.items())
            real = dict((n, g) for n, g in real.items() if g)
            if real != model:
                problems.append(("services-map", "registrations differ from the reference map after %s" %
                                 (op if op != "bad" else "malformed request (%s)" % stp[1]),
                                 {"real": _show(real), "model": _show(model)}))
                break
            rlog = [e for e in log if e[2][0] != ATTACKER]

            def per_key(entries):
                d = {}
                for what, n, a in entries:
                    d.setdefault((n, tuple(a)), []).append(what)
                return d
            rk, mk = per_key(rlog), per_key(mlog)
            if rk != mk:
                bad = sorted(k for k in set(rk) | set(mk) if rk.get(k) != mk.get(k))[0]
                got, want_ = rk.get(bad, []), mk.get(bad, [])
                if len(got) > len(want_):
                    what = "%s hook fired without a membership change" % got[len(want_)] if got[:len(want_)] == want_ else "hooks out of order"
                elif len(got) < len(want_):
                    what = "%s hook missing" % want_[len(got)]
                else:
                    what = "hooks out of order"
                problems.append(("notifications", what, {"key": list(bad), "got": got, "want": want_}))
                break
        if kind == "tcp":
            stats["leaked_conns"] = sum(1 for c in sock.conns if not c.closed)
    finally:
        registry.time = saved_time
    return problems, stats


def _show(m):
    return dict((n, sorted([list(a), t] for a, t in g.items())) for n, g in m.items())


def check(case, rec):
    problems, stats = run_history(case)
    steps = case["steps"]
    kinds = [s[0] for s in steps]
    classes = ["transport:" + case["kind"]] + ["bad:" + s[1] for s in steps if s[0] == "bad"][:6] + ["step:" + k for k in set(kinds)]
    nontrivial = (stats["prunes"] > 0 or "unreg" in kinds) and kinds.count("query") >= 2 and stats["bad"] >= 1
    if stats["prunes"]:
        classes.append("pruned")
    if stats.get("sendfail"):
        classes.append("reply-transmission-fails")
    rec.case(case, nontrivial, classes)
    return [Failure(cl, key, case, det) for cl, key, det in problems[:3]]


def cases():
    small = vals.immutables(big=False, surrogates=False, max_leaves=4)
    nontext = st.sampled_from([["int", "5"], ["none"], ["bytes", "5155455259"], ["tuple", [["str", "QUERY"]]], ["float", "3ff0000000000000"],
                               ["bool", True], ["fset", []], ["tuple", []], ["tuple", [["str", "QUERY"], ["str", "FOO"]]],
                               ["tuple", [["int", "1"], ["int", "2"], ["int", "3"]]], ["str", "%s%s"], ["slice", ["none"], ["none"], ["none"]]])
    bad = st.one_of(
        st.tuples(st.just("bad"), st.just("bytes"), st.binary(max_size=24).map(lambda b: b.hex())),
        st.tuples(st.just("bad"), st.just("value"), small),
        st.tuples(st.just("bad"), st.sampled_from(["magic-not-text", "command-not-text", "query-not-text"]), nontext),
        st.tuples(st.just("bad"), st.sampled_from(["exotic-port", "unregister-exotic"]), small),
        st.tuples(st.just("bad"), st.sampled_from([k for k in BAD_KINDS if k not in ("bytes", "value", "magic-not-text", "command-not-text",
                                                                                      "query-not-text", "exotic-port", "unregister-exotic")]
                                                   + TCP_ONLY), st.none())).map(list)
    reg = st.tuples(st.just("reg"), st.integers(0, 2), st.integers(0, 2), st.lists(st.integers(0, 3), min_size=1, max_size=3)).map(list)
    unreg = st.tuples(st.just("unreg"), st.integers(0, 2), st.integers(0, 2)).map(list)
    query = st.tuples(st.just("query"), st.integers(0, 3), st.integers(0, 3), st.integers(0, 2)).map(list)
    tick = st.tuples(st.just("tick"), st.sampled_from([1.0, 30.0, 50.0, 99.0, 100.0, 101.0, 250.0])).map(list)
    sendfail = st.tuples(st.just("sendfail"), st.sampled_from([90, 101, 113, 1, 111])).map(list)     # EMSGSIZE, ENETUNREACH, ...
    step = st.one_of(reg, reg, unreg, query, query, tick, bad, sendfail)
    # constructive: two servers under one name, the older one refreshed later, a malformed request, queries around a
    # prune / unregister - the shapes that matter should not be left to luck
    def refresh(t):
        a, h0, h1, p, b = t
        return [["reg", h0, p, [a]], ["tick", 10.0], ["reg", h1, p, [a]], ["tick", 10.0], ["query", a, 0, 0], b,
                ["reg", h0, p, [a]], ["tick", 1.0], ["query", a, 1, 1], ["tick", 95.0], ["query", a, 2, 2],
                ["unreg", h0, p], ["query", a, 3, 0]]
    constructed = st.tuples(st.integers(0, 3), st.integers(0, 2), st.integers(0, 2), st.integers(0, 2), bad).filter(
        lambda t: t[1] != t[2]).map(refresh)
    steps = st.one_of(st.lists(step, min_size=3, max_size=40),
                      st.tuples(st.lists(step, max_size=6), constructed, st.lists(step, max_size=8)).map(lambda t: t[0] + t[1] + t[2]))
    return st.fixed_dictionaries({"kind": st.sampled_from(["udp", "tcp"]), "steps": steps})


# ---- the same over real loopback sockets with the real registry clients (real time, generous margins) ----------------
REAL_PRUNE = 0.6


def run_real(case):
    import logging
    import threading
    import time
    from rpyc.utils import registry
    quiet = logging.getLogger("verif-c18-real")
    quiet.disabled = True
    kind = case["kind"]
    problems = []
    if kind == "udp":
        srv = registry.UDPRegistryServer(host="127.0.0.1", port=0, pruning_timeout=REAL_PRUNE, logger=quiet)
        cli = registry.UDPRegistryClient(ip="127.0.0.1", port=srv.port, timeout=2, bcast=False, logger=quiet)
    else:
        srv = registry.TCPRegistryServer(host="127.0.0.1", port=0, pruning_timeout=REAL_PRUNE, logger=quiet)
        cli = registry.TCPRegistryClient(ip="127.0.0.1", port=srv.port, timeout=2, logger=quiet)
    t = threading.Thread(target=srv.start)
    t.daemon = True
    t.start()
    time.sleep(0.05)
    model = {}
    try:
        for stp in case["steps"]:
            op = stp[0]
            if op == "reg":
                port, names = PORTS[stp[1] % 3], [ALIASES[a % 4] for a in stp[2]] or ["foo"]
                ok = cli.register(tuple(names), port, interface="127.0.0.1")
                if not ok:
                    problems.append(("real-reply", "register not acknowledged", [port, names]))
                    break
                now = time.time()
                for n in names:
                    model.setdefault(n.upper(), {})[port] = now
            elif op == "unreg":
                port = PORTS[stp[1] % 3]
                cli.unregister(port)
                time.sleep(0.05)
                for n in list(model):
                    model[n].pop(port, None)
            elif op == "tick":
                time.sleep(stp[1])
            elif op == "bad":
                import socket as _s
                data = bad_request(stp[1], stp[2]) if stp[1] not in TCP_ONLY else b""
                try:
                    if kind == "udp":
                        s = _s.socket(_s.AF_INET, _s.SOCK_DGRAM)
                        s.sendto(data[:1400], ("127.0.0.1", srv.port))
                        s.close()
                    else:
                        s = _s.create_connection(("127.0.0.1", srv.port), timeout=2)
                        if data:
                            s.sendall(data[:1400])
                        s.close()
                except OSError:
                    pass
                time.sleep(0.02)
            elif op == "query":
                name = ALIASES[stp[1] % 4]
                name = [name.lower(), name.upper(), name.capitalize()][stp[2] % 3]
                t0 = time.time()
                got = cli.discover(name)
                t1 = time.time()
                grp = model.get(name.upper(), {})
                sure_live = [p for p, ts in grp.items() if t1 - ts < REAL_PRUNE - 0.25]
                sure_dead = [p for p, ts in grp.items() if t0 - ts > REAL_PRUNE + 0.25]
                ports = [x[1] for x in got] if isinstance(got, tuple) else None
                if ports is None or any(x[0] != "127.0.0.1" for x in got):
                    problems.append(("real-query", "reply is not a tuple of (host, port)", repr(got)[:80]))
                    break
                if any(p not in ports for p in sure_live) or any(p in ports for p in sure_dead) or any(p not in grp for p in ports):
                    problems.append(("real-query", "reply lists other servers than the live registrations",
                                     {"got": ports, "live": sure_live, "dead": sure_dead, "known": sorted(grp)}))
                    break
                for p in sure_dead:
                    grp.pop(p, None)
                order = [p for p in ports if p in sure_live]
                if any(grp[order[i]] > grp[order[i + 1]] + 0.02 for i in range(len(order) - 1)):
                    problems.append(("real-query", "not oldest refresh first", {"got": ports}))
                    break
            if not t.is_alive():
                problems.append(("real-loop-died", "registry thread ended after %s" % (op if op != "bad" else "malformed request (%s)" % stp[1]), None))
                break
    finally:
        try:
            srv.close()
        except Exception:
            pass
        t.join(5)
    return problems


def check_real(case, rec):
    problems = run_real(case)
    if problems:
        again = run_real(case)          # real time: confirm in isolation
        if not again:
            rec.count("inconclusive: not reproduced")
            problems = []
        else:
            problems = again
    steps = case["steps"]
    rec.case(case, any(s[0] == "bad" for s in steps) and sum(1 for s in steps if s[0] == "query") >= 1,
             ["real-transport:" + case["kind"]] + ["real-bad:" + s[1] for s in steps if s[0] == "bad"][:4])
    return [Failure(cl, key, case, det) for cl, key, det in problems[:2]]


def real_cases():
    small = vals.immutables(big=False, surrogates=False, max_leaves=3)
    bad = st.one_of(st.tuples(st.just("bad"), st.sampled_from(["wrong-magic", "unknown-command", "private-command", "wrong-argc", "no-args",
                                                                "args-not-iterable", "aliases-not-text", "aliases-not-iterable", "truncated",
                                                                "close-at-once", "half"]), st.none()),
                    st.tuples(st.just("bad"), st.just("command-not-text"), st.sampled_from([["int", "5"], ["none"], ["bytes", "5155"], ["tuple", []],
                                                                                              ["tuple", [["str", "QUERY"], ["str", "FOO"]]]])),
                    st.tuples(st.just("bad"), st.just("value"), small),
                    st.tuples(st.just("bad"), st.just("bytes"), st.binary(max_size=16).map(lambda b: b.hex()))).map(list)
    reg = st.tuples(st.just("reg"), st.integers(0, 2), st.lists(st.integers(0, 3), min_size=1, max_size=2)).map(list)
    step = st.one_of(reg, reg, st.tuples(st.just("unreg"), st.integers(0, 2)).map(list),
                     st.tuples(st.just("query"), st.integers(0, 3), st.integers(0, 2)).map(list),
                     st.tuples(st.just("tick"), st.sampled_from([0.05, 1.0])).map(list), bad)
    core = st.tuples(st.integers(0, 3), bad).map(lambda t: [["reg", 0, [t[0]]], ["tick", 0.05], ["reg", 1, [t[0]]], t[1], ["query", t[0], 0],
                                                            ["reg", 0, [t[0]]], ["query", t[0], 1], ["unreg", 1], ["query", t[0], 2]])
    return st.fixed_dictionaries({"part": st.just("real"), "kind": st.sampled_from(["udp", "tcp"]),
                                  "steps": st.one_of(core, st.lists(step, min_size=2, max_size=10))})


def plan(tier, scale):
    n, sh = (250, 10) if tier == "quick" else (8000, 14)
    out = [{"part": "histories", "n": int(n * scale)} for _ in range(sh)]
    out += [{"part": "real", "n": int((6 if tier == "quick" else 60) * scale) or 1} for _ in range(3 if tier == "quick" else 6)]
    return out


def run_shard(desc, seed, rec, tier):
    if desc["part"] == "real":
        drive(rec, real_cases(), lambda c: check_real(c, rec), desc["n"], seed, shrink_budget=10)
    else:
        drive(rec, cases(), lambda c: check(c, rec), desc["n"], seed)


def replay(case, rec):
    if case.get("part") == "real":
        return check_real(case, rec)
    return check(case, rec)
