"""C19 - bytes on the wire are those of the published 5.x protocol (differential against vlib.refcodec/refpeer)."""
import zlib

from hypothesis import strategies as st

from vlib import vals, refcodec
from vlib.hyp import drive
from vlib.runner import Failure

ID = "C19"
LEVEL = "exploration"
RULE = ("values: per-wire-class constructed immutables, brine.dump compared byte-for-byte with an independently written "
        "reference encoder, parsed by a strict shortest-form reference decoder, and reference bytes decoded by brine.load; "
        "packets: Channel.send output parsed by the reference frame parser (flag iff compression enabled and len>3000, "
        "big-endian length, newline), reference frames at every zlib level fed to Channel.recv; constants compared with a "
        "literal table; conversations: real Connection against the reference peer in both roles, every frame decoded "
        "strictly. non-trivial = composite value or length-class edge; packet within 2 bytes of the threshold or >64000; "
        "conversation with a reference in each direction. distinct by case hash.")
ASSUMPTIONS = ["'published format' = constants and layout of the 5.0.x release as transcribed into vlib/refcodec.py, "
               "guarded by frozen byte vectors (brine docstring example, hand-assembled encodings)"]

CONST_TABLE = dict(
    MSG_REQUEST=1, MSG_REPLY=2, MSG_EXCEPTION=3,
    LABEL_VALUE=1, LABEL_TUPLE=2, LABEL_LOCAL_REF=3, LABEL_REMOTE_REF=4,
    HANDLE_PING=1, HANDLE_CLOSE=2, HANDLE_GETROOT=3, HANDLE_GETATTR=4, HANDLE_DELATTR=5, HANDLE_SETATTR=6,
    HANDLE_CALL=7, HANDLE_CALLATTR=8, HANDLE_REPR=9, HANDLE_STR=10, HANDLE_CMP=11, HANDLE_HASH=12, HANDLE_DIR=13,
    HANDLE_PICKLE=14, HANDLE_DEL=15, HANDLE_INSPECT=16, HANDLE_BUFFITER=17, HANDLE_OLDSLICING=18, HANDLE_CTXEXIT=19,
    HANDLE_INSTANCECHECK=20, EXC_STOP_ITERATION=1, STREAM_CHUNK=64000,
)


class BufStream(object):
    """minimal Stream: collects writes, serves reads from a buffer"""
    MAX_IO_CHUNK = 64000

    def __init__(self, inp=b""):
        self.inp = bytearray(inp)
        self.out = bytearray()
        self.writes = []
        self.closed = False

    def write(self, data):
        self.writes.append(len(data))
        self.out += data

    def read(self, n):
        if len(self.inp) < n:
            raise EOFError("short")
        d = bytes(self.inp[:n])
        del self.inp[:n]
        return d

    def poll(self, timeout):
        return bool(self.inp)

    def close(self):
        self.closed = True

    def fileno(self):
        return 0


def plan(tier, scale):
    if tier == "quick":
        nv, npk, nconv, sh = 2000, 250, 150, 4
    else:
        nv, npk, nconv, sh = 40000, 4000, 3000, 12
    out = [{"part": "consts"}]
    out += [{"part": "values", "n": int(nv * scale)} for _ in range(sh)]
    out += [{"part": "packets", "n": int(npk * scale)} for _ in range(sh)]
    try:
        from props import c19conv  # noqa: F401
        out += [{"part": "conv", "n": int(nconv * scale)} for _ in range(sh)]
    except ImportError:
        pass
    return out


# ---------------------------------------------------------------------------------------------------
def check_consts(rec):
    from rpyc.core import consts, brine, channel
    fails = []
    case = {"part": "consts"}
    for name, val in sorted(CONST_TABLE.items()):
        got = getattr(consts, name, None)
        c = {"part": "consts", "name": name}
        rec.case(c, True, ["const"])
        if got != val or type(got) is not int:
            fails.append(Failure("const", name, c, got, val))
    extra = [n for n in dir(consts) if n.isupper() and n not in CONST_TABLE]
    if extra:
        fails.append(Failure("const-unknown", ",".join(extra), case, extra, []))
    ch = channel.Channel
    hdr = ch.FRAME_HEADER.pack(0x01020304, 1)
    c = {"part": "consts", "name": "frame-layout"}
    rec.case(c, True, ["const"])
    if hdr != b"\x01\x02\x03\x04\x01" or ch.FLUSHER != b"\n" or ch.COMPRESSION_THRESHOLD != 3000:
        fails.append(Failure("frame-layout", "header/flusher/threshold", c,
                             [hdr.hex(), repr(ch.FLUSHER), ch.COMPRESSION_THRESHOLD], ["0102030401", "b'\\n'", 3000]))
    # tag table through behaviour: one witness per tag
    for v, b in refcodec.FROZEN:
        if b is None:
            continue
        c = {"part": "consts", "name": "vector", "hex": b.hex()}
        rec.case(c, True, ["vector"])
        try:
            got = brine.dump(v)
        except Exception as ex:
            got = repr(ex).encode()
        if got != b:
            fails.append(Failure("frozen-vector", b[:1].hex(), c, got.hex(), b.hex()))
    try:
        x = brine.load(bytes.fromhex(refcodec.DOCSTRING_HEX))
        ok = x == (b"he", 7, "llo", 8, (), 900, None, True, Ellipsis, 18.2, 18.2j + 13, slice(1, 2, 3),
                   frozenset([5, 6, 7]), NotImplemented)
    except Exception as ex:
        ok, x = False, repr(ex)
    if not ok:
        fails.append(Failure("frozen-vector", "docstring", {"part": "consts", "name": "docstring"}, repr(x)))
    return fails


def check_value(spec, rec):
    from rpyc.core import brine
    case = {"part": "values", "spec": spec}
    classes = vals.spec_classes(spec)
    from props.c04 import EDGE
    nontrivial = vals.is_composite(spec) or bool(classes & EDGE) or any(c.startswith("int-digits") for c in classes)
    rec.case(case, nontrivial, classes)
    v = vals.build(spec)
    fails = []
    want = refcodec.dump(v)
    try:
        got = brine.dump(v)
    except Exception as ex:
        return [Failure("dump-raises", type(ex).__name__, case, repr(ex)[:200])]
    if got != want:
        # say where: first differing byte and the reference's view of the real bytes
        i = next((k for k in range(min(len(got), len(want))) if got[k] != want[k]), min(len(got), len(want)))
        try:
            refcodec.load(got)
            why = "non-shortest-or-reordered"
        except refcodec.RefDecodeError as ex:
            why = "ref-decoder:%s" % (str(ex).split(" at ")[0][:40],)
        except Exception as ex:
            why = "ref-decoder:%s" % type(ex).__name__
        fails.append(Failure("dump-bytes", "%s tag=0x%02x" % (why, want[i] if i < len(want) else 0), case,
                             got[max(0, i - 4):i + 8].hex(), want[max(0, i - 4):i + 8].hex()))
    else:
        try:
            back = refcodec.load(got, strict_shortest=True)
            if not vals.same(back, v):
                fails.append(Failure("ref-decode-differs", spec[0], case, vals.describe(back), vals.describe(v)))
        except Exception as ex:
            fails.append(Failure("ref-decode-raises", type(ex).__name__, case, repr(ex)[:200]))
    try:
        r = brine.load(want)
        if not vals.same(r, v):
            fails.append(Failure("load-of-reference-bytes", spec[0], case, vals.describe(r), vals.describe(v)))
    except Exception as ex:
        fails.append(Failure("load-of-reference-bytes-raises", type(ex).__name__, case, repr(ex)[:200]))
    return fails


def _payload(seed64, size, compressible):
    import hashlib
    if compressible:
        unit = hashlib.shake_256(seed64.to_bytes(8, "big")).digest(16)
        return (unit * (size // 16 + 1))[:size]
    return hashlib.shake_256(seed64.to_bytes(8, "big")).digest(size)


PKT_SIZES = [0, 1, 2, 100, 2998, 2999, 3000, 3001, 3002, 4096, 63990, 63993, 63994, 63995, 63996, 63999, 64000,
             64001, 127999, 128000, 128001, 200000]


def check_packet(case, rec):
    from rpyc.core.channel import Channel
    size, seed64, compressible, compress, level = case["size"], case["seed"], case["compressible"], case["compress"], case["level"]
    p = _payload(seed64, size, compressible)
    classes = ["pkt:compress=%s" % compress, "pkt:%s" % ("<=3000" if size <= 3000 else (">3000" if size < 63994 else ">=chunk"))]
    rec.case(case, abs(size - 3000) <= 2 or size >= 63990, classes)
    fails = []
    s = BufStream()
    ch = Channel(s, compress)
    try:
        ch.send(p)
    except Exception as ex:
        return [Failure("send-raises", type(ex).__name__, case, repr(ex)[:200])]
    wire = bytes(s.out)
    try:
        frames = refcodec.parse_frames(wire)
    except Exception as ex:
        return [Failure("frame-unparseable", str(ex).split(" at ")[0][:40], case, wire[:12].hex())]
    if len(frames) != 1:
        return [Failure("frame-count", len(frames), case, len(frames), 1)]
    flag, payload, _ = frames[0]
    want_flag = 1 if (compress and size > 3000) else 0
    if flag != want_flag:
        fails.append(Failure("compression-flag", "size%s3000 compress=%s" % (">" if size > 3000 else "<=", compress),
                             case, flag, want_flag))
    if payload != p:
        fails.append(Failure("frame-payload", "differs", case, len(payload), len(p)))
    # a conforming peer's frame, any zlib level, must be accepted and mean the same
    for lvl in ([None, level] if level is not None else [None]):
        r = BufStream(refcodec.frame(p, lvl) + refcodec.frame(b"next", None))
        ch2 = Channel(r, compress)
        try:
            got = ch2.recv()
            nxt = ch2.recv()
        except Exception as ex:
            fails.append(Failure("recv-raises", "level=%s %s" % (lvl, type(ex).__name__), case, repr(ex)[:200]))
            continue
        if got != p or nxt != b"next":
            fails.append(Failure("recv-differs", "level=%s" % (lvl,), case, len(got), len(p)))
    return fails


def packets():
    size = st.one_of(st.sampled_from(PKT_SIZES), st.integers(0, 5000), st.integers(63000, 66000))
    return st.fixed_dictionaries({"part": st.just("packets"), "size": size, "seed": st.integers(0, 2 ** 64 - 1),
                                  "compressible": st.booleans(), "compress": st.booleans(),
                                  "level": st.one_of(st.none(), st.integers(0, 9))})


def run_shard(desc, seed, rec, tier):
    part = desc["part"]
    if part == "consts":
        for f in rec.triage(check_consts(rec)):
            rec.violation(f)
    elif part == "values":
        drive(rec, vals.immutables(surrogates=True), lambda spec: check_value(spec, rec), desc["n"], seed)
    elif part == "packets":
        drive(rec, packets(), lambda c: check_packet(c, rec), desc["n"], seed)
    elif part == "conv":
        from props import c19conv
        c19conv.run(desc, seed, rec)


def replay(case, rec):
    part = case["part"]
    if part == "consts":
        return check_consts(rec)
    if part == "values":
        return check_value(case["spec"], rec)
    if part == "packets":
        return check_packet(case, rec)
    from props import c19conv
    return c19conv.replay(case, rec)
