"""C20 - uploading and downloading files reproduces them byte for byte."""
import hashlib
import os
import shutil
import tempfile

from hypothesis import strategies as st

from vlib.hyp import drive
from vlib.pair import Pair
from vlib.runner import Failure

ID = "C20"
LEVEL = "exploration"
RULE = ("case = (directory tree: depth <= 3, fan-out <= 4, empty directories and empty files, names with spaces / dots / "
        "non-ASCII, optionally every top-level file X accompanied by X.part / X.tmp / X~ / X.bak / X.swp; file contents random, all NUL, "
        "or with a long leading or trailing run of NUL bytes; chunk size in {1,2,3,7,64,4096,64000}; file sizes from buckets relative to the chunk: 0,1,c-1,c,c+1,2c-1,"
        "2c,2c+1,k*c, arbitrary; filter none / reject a set of base names / reject by suffix; upload or download; whole "
        "tree or single file) over a classic connection pair. oracle: destination == source minus every entry whose base "
        "name the filter rejects (with its subtree): same relative paths (directories included), byte-identical files, "
        "nothing else - observed at the moment the call returns and again at the end; optionally the source files are then "
        "rewritten (same names, other bytes, same or half the size) and transferred again over the existing destination, "
        "with the same oracle; a missing top-level path raises ValueError. non-trivial = a file whose size is a multiple of the "
        "chunk or one off, or a filter that rejects a directory. distinct by (shape, sizes mod chunk, chunk, filter).")
ASSUMPTIONS = ["both peers share one filesystem (separate temporary source and destination directories)"]

CHUNKS = [1, 2, 3, 7, 64, 4096, 64000]
NAMES = ["a", "b.txt", "c d", "é.bin", "x.tmp", "skip", ".hidden", "deep", "data.tmp", "ü ö", "n.o.t", "Z", " lead", "trail ", "tab\tin"]


def content(seed, size, again=None):
    """`again`: the second version of the same file (other bytes; same or half the size)"""
    if again == "half-size":
        size //= 2
    if not size:
        return b""
    data = hashlib.shake_256(b"c20:%d%s" % (seed, b":v2" if again else b"")).digest(size)
    # some files are all NUL bytes, some end (or begin) with a long run of them, like sparse or pre-allocated files
    if seed % 7 == 0:
        return b"\0" * size
    if seed % 7 == 1:
        return data[:size // 2] + b"\0" * (size - size // 2)
    if seed % 7 == 2:
        return b"\0" * (size // 2) + data[size // 2:]
    return data


def size_of(bucket, c, k):
    table = {"0": 0, "1": 1, "c-1": c - 1, "c": c, "c+1": c + 1, "2c-1": 2 * c - 1, "2c": 2 * c, "2c+1": 2 * c + 1,
             "kc": (k % 5 + 3) * c, "any": k}
    n = max(0, table[bucket])
    if c >= 4096:
        n = min(n, 2 * c + 1)
    return n


def materialise(root, tree, c, again=None):
    if not os.path.isdir(root):
        os.makedirs(root)
    for name, node in tree:
        p = os.path.join(root, name)
        if node[0] == "d":
            materialise(p, node[1], c, again)
        else:
            with open(p, "wb") as f:
                f.write(content(node[2], size_of(node[1], c, node[2]), again))


def scan(root):
    """relative path -> None for directories, bytes for files"""
    out = {}
    for dirpath, dirnames, filenames in os.walk(root):
        rel = os.path.relpath(dirpath, root)
        for d in dirnames:
            out[os.path.normpath(os.path.join(rel, d))] = None
        for fn in filenames:
            with open(os.path.join(dirpath, fn), "rb") as f:
                out[os.path.normpath(os.path.join(rel, fn))] = f.read()
    return out


def expected(tree, c, accept, prefix="", again=None):
    out = {}
    for name, node in tree:
        if not accept(name):
            continue
        rel = os.path.normpath(os.path.join(prefix, name))
        if node[0] == "d":
            out[rel] = None
            out.update(expected(node[1], c, accept, rel, again))
        else:
            out[rel] = content(node[2], size_of(node[1], c, node[2]), again)
    return out


def dedupe(tree):
    seen = set()
    out = []
    for name, node in tree:
        if name in seen:
            continue
        seen.add(name)
        out.append([name, ["d", dedupe(node[1])] if node[0] == "d" else node])
    return out


def add_siblings(tree, suffix):
    """for every file X of the top directory also a file X<suffix> (names that look like somebody's temporary copy)"""
    if not suffix:
        return tree
    names = set(n for n, _ in tree)
    out = list(tree)
    for name, node in tree:
        if node[0] == "f" and name + suffix not in names:
            out.append([name + suffix, ["f", node[1], node[2] + 3]])
            names.add(name + suffix)
    return out


def make_filter(spec):
    if spec is None:
        return None, (lambda n: True)
    if spec[0] == "names":
        rej = set(spec[1])
        f = lambda n: n not in rej      # noqa: E731
        return f, f
    suf = spec[1]
    f = lambda n: not n.endswith(suf)   # noqa: E731
    return f, f


def stats(tree, c, accept, acc=None, depth=1):
    acc = acc if acc is not None else {"files": 0, "dirs": 0, "edge": 0, "rejected_dir": 0, "empty_dir": 0, "depth": 0}
    acc["depth"] = max(acc["depth"], depth)
    for name, node in tree:
        if node[0] == "d":
            acc["dirs"] += 1
            if not accept(name):
                acc["rejected_dir"] += 1
            if not node[1]:
                acc["empty_dir"] += 1
            stats(node[1], c, accept, acc, depth + 1)
        else:
            acc["files"] += 1
            n = size_of(node[1], c, node[2])
            if n and (n % c == 0 or n % c == 1 or n % c == c - 1):
                acc["edge"] += 1
    return acc


def _timeout_class():
    from rpyc.core.async_ import AsyncResultTimeout
    return AsyncResultTimeout


def check(case, rec):
    import rpyc
    from rpyc.utils import classic
    tree = add_siblings(dedupe(case["tree"]), case.get("sibling"))
    c = case["chunk"]
    filt, accept = make_filter(case["filter"])
    stt = stats(tree, c, accept)
    nontrivial = stt["edge"] > 0 or stt["rejected_dir"] > 0
    classes = ["dir:" + case["direction"], "chunk:%d" % c, "filter:%s" % (case["filter"][0] if case["filter"] else "none"),
               "mode:" + case["mode"], "depth:%d" % stt["depth"]]
    if stt["empty_dir"]:
        classes.append("has-empty-dir")
    if stt["edge"]:
        classes.append("has-chunk-edge-file")
    if stt["rejected_dir"]:
        classes.append("filter-rejects-dir")
    key = {"shape": _shape(tree, c), "chunk": c, "filter": case["filter"], "direction": case["direction"], "mode": case["mode"]}
    rec.case(key if nontrivial else case, nontrivial, classes)
    again = case.get("again")
    if case.get("sibling"):
        classes.append("sibling-names:X-and-X" + case["sibling"])
    if again:
        classes.append("second-transfer-over-existing-destination:" + again)
    fails = []
    work = tempfile.mkdtemp(prefix="verif_c20_")
    try:
        src = os.path.join(work, "src")
        dst = os.path.join(work, "dst root")
        materialise(src, tree, c)
        out = {}
        slow = case.get("slow_read") if case["direction"] == "download" and case["mode"] != "missing" else None
        if slow is not None:
            classes.append("one-remote-read-outlasts-the-request-timeout")
        import builtins
        real_open = builtins.open
        reads = [0]
        with Pair(rpyc.ClassicService, rpyc.ClassicService, connect_in_tasks=True,
                  config_a={"sync_request_timeout": 5} if slow is not None else None) as p:
            class SlowFile(object):
                """a source file one of whose reads (the slow-th of the whole transfer) takes longer than the requester waits"""

                def __init__(self, f):
                    self.f = f

                def read(self, n=-1):
                    i = reads[0]
                    reads[0] += 1
                    if i == slow:
                        p.k.sleep(9.0)
                    return self.f.read(n)

                def __enter__(self):
                    return self

                def __exit__(self, *a):
                    self.f.close()

                def __getattr__(self, name):
                    return getattr(self.f, name)

            def slow_open(path, mode="r", *a, **kw):
                f = real_open(path, mode, *a, **kw)
                if mode == "rb" and isinstance(path, str) and path.startswith(src + os.sep):
                    return SlowFile(f)
                return f
            if slow is not None:
                builtins.open = slow_open

            def driver():
                conn = p.a
                kw = {} if c == 64000 and case.get("default_chunk") else {"chunk_size": c}
                fn = classic.upload if case["direction"] == "upload" else classic.download
                if case["mode"] == "tree":
                    fn(conn, src, dst, filter=filt, **kw)
                    # what the destination holds at the moment the call returns (nothing else has run since)
                    out["at_return"] = scan(dst) if os.path.isdir(dst) else None
                    if again:
                        materialise(src, tree, c, again)          # same names, other bytes (same or half the size)
                        fn(conn, src, dst, filter=filt, **kw)
                        out["at_return2"] = scan(dst) if os.path.isdir(dst) else None
                elif case["mode"] == "file":
                    files = [n for n, node in tree if node[0] == "f"]
                    if files:
                        fn(conn, os.path.join(src, files[0]), dst, **kw)
                        out["single"] = files[0]
                        out["at_return"] = open(dst, "rb").read() if os.path.isfile(dst) else None
                        if again:
                            materialise(src, tree, c, again)
                            fn(conn, os.path.join(src, files[0]), dst, **kw)
                            out["at_return2"] = open(dst, "rb").read() if os.path.isfile(dst) else None
                else:
                    try:
                        fn(conn, os.path.join(src, "does-not-exist"), dst, **kw)
                        out["missing"] = "no error"
                    except ValueError:
                        out["missing"] = "ValueError"
                    except Exception as ex:
                        out["missing"] = type(ex).__name__
            try:
                t = p.run(driver)
            finally:
                builtins.open = real_open
            dl = p.k.deadlock
        if slow is not None and t.exc is not None and isinstance(t.exc, _timeout_class()) and reads[0] > slow:
            # the transfer REPORTED that it did not complete: a permitted outcome (what may not happen is a normal return with other bytes)
            rec.count("transfers that reported the timed-out read")
        elif t.exc is not None:
            fails.append(Failure("transfer-raised", type(t.exc).__name__, case, t.exc_tb[-300:]))
        elif dl:
            fails.append(Failure("deadlock", "transfer", case, dl))
        elif case["mode"] == "missing":
            if out.get("missing") != "ValueError" or os.path.exists(dst):
                fails.append(Failure("missing-path", str(out.get("missing")), case, out.get("missing"), "ValueError"))
        elif case["mode"] == "file":
            if "single" in out:
                name = out["single"]
                node = dict((n, x) for n, x in tree)[name]
                snapshots = [("when the call returned", None, out.get("at_return"))]
                if again:
                    snapshots.append(("when the second call returned", again, out.get("at_return2")))
                snapshots.append(("in the end", again, open(dst, "rb").read() if os.path.isfile(dst) else None))
                for when, ag, got in snapshots:
                    want = content(node[2], size_of(node[1], c, node[2]), ag)
                    if got != want:
                        fails.append(Failure("file-content", _diffkind(got, want, c) + (" (%s)" % when if when != "in the end" else ""),
                                             case, None if got is None else len(got), len(want)))
                        break
        else:
            snapshots = [("when the call returned", None, out.get("at_return"))]
            if again:
                snapshots.append(("when the second call returned", again, out.get("at_return2")))
            snapshots.append(("in the end", again, scan(dst) if os.path.isdir(dst) else None))
            for when, ag, got in snapshots:
                fails += _compare_tree(case, tree, c, accept, ag, got, "" if when == "in the end" else " (%s)" % when)
                if fails:
                    break
    finally:
        shutil.rmtree(work, ignore_errors=True)
    return fails[:3]


def _compare_tree(case, tree, c, accept, again, got, when):
    fails = []
    want = expected(tree, c, accept, again=again)
    if got is None:
        return [Failure("tree", "destination directory not created" + when, case)]
    missing = sorted(set(want) - set(got))
    extra = sorted(set(got) - set(want))
    if missing:
        kind = "directory-missing" if want[missing[0]] is None else "file-missing"
        fails.append(Failure("tree", kind + when, case, missing[:4]))
    if extra:
        fails.append(Failure("tree", "entry-that-the-filter-rejects-or-nobody-sent" + when, case, extra[:4]))
    for rel in sorted(set(want) & set(got)):
        if want[rel] != got[rel]:
            if want[rel] is None or got[rel] is None:
                fails.append(Failure("tree", "file-vs-directory" + when, case, rel))
            else:
                fails.append(Failure("file-content", _diffkind(got[rel], want[rel], c) + when, case,
                                     [rel, len(got[rel])], len(want[rel])))
            break
    return fails


def _diffkind(got, want, c):
    if got is None:
        return "missing"
    if len(got) < len(want):
        return "truncated" + ("-at-chunk-boundary" if len(got) % c == 0 else "")
    if len(got) > len(want):
        return "too-long"
    return "bytes-differ"


def _shape(tree, c):
    return [[name, _shape(node[1], c)] if node[0] == "d" else [name, size_of(node[1], c, node[2]) % c, min(size_of(node[1], c, node[2]) // c, 3)]
            for name, node in tree]


def trees(depth):
    fnode = st.tuples(st.just("f"), st.sampled_from(["0", "1", "c-1", "c", "c+1", "2c-1", "2c", "2c+1", "kc", "any"]),
                      st.integers(0, 300)).map(list)
    entry_f = st.tuples(st.sampled_from(NAMES), fnode).map(list)
    if depth <= 1:
        return st.lists(entry_f, max_size=4)
    entry_d = st.tuples(st.sampled_from(NAMES), st.deferred(lambda: trees(depth - 1)).map(lambda t: ["d", t])).map(list)
    return st.lists(st.one_of(entry_f, entry_f, entry_d), max_size=4)


def cases():
    filt = st.one_of(st.none(), st.lists(st.sampled_from(NAMES), min_size=1, max_size=3).map(lambda ns: ["names", ns]),
                     st.sampled_from([".tmp", ".txt", "p"]).map(lambda s: ["suffix", s]))
    return st.fixed_dictionaries({"tree": trees(3), "chunk": st.sampled_from(CHUNKS + [1, 2, 3, 7, 64]), "filter": filt,
                                  "direction": st.sampled_from(["upload", "download"]),
                                  "mode": st.sampled_from(["tree", "tree", "tree", "file", "missing"]),
                                  "default_chunk": st.booleans(),
                                  "again": st.sampled_from([None, None, "same-size", "half-size"]),
                                  "sibling": st.sampled_from([None, None, None, ".part", ".tmp", "~", ".bak", ".swp"]),
                                  "slow_read": st.sampled_from([None, None, None, 0, 1, 2, 3, 5])})


def plan(tier, scale):
    n, sh = (40, 8) if tier == "quick" else (900, 12)
    return [{"part": "trees", "n": int(n * scale)} for _ in range(sh)]


def run_shard(desc, seed, rec, tier):
    drive(rec, cases(), lambda c: check(c, rec), desc["n"], seed)


def replay(case, rec):
    return check(case, rec)
