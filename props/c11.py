"""C11 - every way a connection can end leaves both sides clean, once, and nobody hanging."""
import collections

from hypothesis import strategies as st

from vlib import simkernel as sk
from vlib.hyp import drive
from vlib.runner import Failure

ID = "C11"
LEVEL = "fault_enumeration"
RULE = ("case = (workload, serving arrangement, fault plan or close order). Workloads: n synchronous calls; an asynchronous "
        "batch collected later; nested callbacks of depth d; references held in both directions and then used; caller plain or "
        "with a BgServingThread. A clean run of each workload numbers every transport operation of both in-memory streams; "
        "fault plans are then ENUMERATED: incoming stream ends / outgoing write fails at every operation boundary and at byte "
        "offsets {0, 1, middle, last} inside every read and write, on either side, plus a failing poll at every poll index; "
        "close orders: either side first, both concurrently (generated interleavings at line granularity inside close/"
        "_cleanup), close during an outstanding request, close twice. oracle at quiescence: no deadlock; every request ends "
        "with its own value, EOFError or its own timeout; a side that closed, was told to close, or met the failure inside "
        "serve() reports closed; closed => disconnect hook ran exactly once (never twice), its tables are empty, a further "
        "close() changes nothing, a later request raises EOFError. non-trivial = fault strictly inside a packet, during a "
        "nested callback, while a reply is written, or overlapping closes. distinct by (workload, side, kind, position).")
ASSUMPTIONS = ["the in-memory stream honours the Stream contract (close self, raise EOFError); real socket/pipe streams are C05's",
               "the thorough tier enumerates all plans of every workload variant; the quick tier a deterministic sample + Hypothesis"]

WORKLOADS = [
    {"w": "sync", "n": 3, "bg": False}, {"w": "sync", "n": 2, "bg": True},
    {"w": "sync", "n": 2, "bg": False, "loop": True, "timeout": None}, {"w": "async", "n": 2, "bg": False, "loop": True, "timeout": None},
    {"w": "async", "n": 4, "bg": False}, {"w": "async", "n": 3, "bg": True},
    {"w": "nested", "d": 2, "bg": False}, {"w": "nested", "d": 3, "bg": False}, {"w": "nested", "d": 2, "bg": True},
    {"w": "refs", "bg": False}, {"w": "refs", "bg": True},
]


def run_scenario(case, chooser=None, trace=False, record=False):
    import rpyc
    from rpyc.core.channel import Channel
    from rpyc.core.async_ import AsyncResultTimeout
    import rpyc.core.protocol as protocol
    import rpyc.utils.helpers as helpers
    wl = case["workload"]
    fault = case.get("fault")
    closing = case.get("close")
    kw = {}
    if trace and not (closing and closing["mode"] == "a-overlap"):
        kw = dict(trace_files=[protocol.__file__], trace_funcs=["close", "_cleanup", "_handle_close"])
        # serve()/wait() are deliberately not preemption points here: preempting them opens the stall windows that
        # C14 reports as known findings F4/F4b, which (with no request timeout) would show up here as hangs
    k = sk.Kernel(chooser, max_time=300.0, **kw)
    R = {"outcomes": [], "problems": [], "fault_in_serve": None}
    with k.installed():
        link = sk.Link(k)
        disc = collections.Counter()
        serve_depth = collections.Counter()

        class Svc(rpyc.Service):
            def __init__(self, name):
                self.name = name
                self.held = None

            def on_disconnect(self, conn):
                disc[self.name] += 1
                if case.get("hook_yields"):
                    k.sleep(0.05)            # a hook that takes its time: other threads of this side run meanwhile
                if case.get("hook_recloses"):
                    conn.close()             # closing again - even from inside the hook - must be a no-op

            def exposed_boom(self):
                raise ValueError("boom")

            def exposed_echo(self, x):
                return x

            def exposed_nest(self, d, cb, tok):
                if d <= 0:
                    return tok
                return cb(d - 1, tok)

            def exposed_make(self):
                return [1, 2, 3]

            def exposed_hold(self, obj):
                self.held = obj
                return len(obj)

            def exposed_use_held(self):
                return len(self.held)

        sa, sb = Svc("A"), Svc("B")
        cfg = {"sync_request_timeout": wl.get("timeout", 30)}
        cfg_a = dict(cfg)
        bc = case.get("before_closed")
        if bc:
            # the application's last-words hook: fine / fails locally / fails in a remote call (close() may then raise what the
            # hook raised, but the connection must end up closed and finalised all the same)
            def before_closed(root, _bc=bc):
                if _bc == "raises":
                    raise ValueError("before_closed hook failed")
                if _bc == "remote-raises":
                    root.boom()
                else:
                    root.echo("bye")
            cfg_a["before_closed"] = before_closed
        A = sa._connect(Channel(link.a), cfg_a)
        B = sb._connect(Channel(link.b), cfg)
        conns = {"A": A, "B": B}
        streams = {"A": link.a, "B": link.b}
        for name in ("A", "B"):
            c = conns[name]
            orig = c.serve

            def serve(*a, _o=orig, _n=name, **kw2):
                serve_depth[_n] += 1
                try:
                    return _o(*a, **kw2)
                finally:
                    serve_depth[_n] -= 1
            c.serve = serve
            s = streams[name]
            s.record_ops = record
            s.strict_epipe = True
            s.yield_on_write = bool(closing and closing["mode"] == "a-overlap")
        if fault:
            s = streams[fault["side"]]
            if fault["kind"] == "in":
                s.in_cut = fault["pos"]
                if fault["pos"] == 0:
                    s.eof_in = True
            elif fault["kind"] == "out":
                s.out_cut = fault["pos"]
            else:
                s.poll_fail_at = fault["pos"]
            # was the failing operation inside serve() ?  sampled when the stream closes itself
            orig_close = s.close

            def closing_hook(_o=orig_close, _n=fault["side"], _s=s):
                if not _s._closed and R["fault_in_serve"] is None and _s.fault_fired is not None:
                    R["fault_in_serve"] = serve_depth[_n] > 0
                return _o()
            s.close = closing_hook

        def serve_b():
            try:
                B.serve_all()
            except sk.KernelAbort:
                raise
            except BaseException as ex:
                R["problems"].append(("serving-side-raised", type(ex).__name__, str(ex)[:100]))

        def attempt(label, want, fn):
            t0 = k.now
            try:
                v = fn()
                out = ["value", v if isinstance(v, (int, str)) else repr(v)[:40]]
                if want is not None and v != want:
                    R["problems"].append(("foreign-value", "request returned a value the peer did not send for it", [label, out[1], want]))
            except EOFError:
                out = ["EOFError"]
            except AsyncResultTimeout:
                out = ["timeout", k.now - t0]
            except sk.KernelAbort:
                raise
            except BaseException as ex:
                out = ["other", type(ex).__name__, str(ex)[:80]]
                R["problems"].append(("request-failed-otherwise", type(ex).__name__, [label, str(ex)[:100]]))
            R["outcomes"].append([label] + out)
            return out

        stop_loop = [False]

        def loop_server():
            try:
                while not stop_loop[0] and not A.closed:
                    A.serve(1.0)
            except EOFError:
                pass

        def workload():
            bg = None
            if wl["bg"]:
                bg = helpers.BgServingThread(A, callback=lambda: None)
            if wl.get("loop"):
                k.spawn(loop_server, name="loop-A", daemon=True)
                k.sleep(0.001)      # the serving thread now holds the receive lock; this thread will park on the condition
            try:
                got = {}
                root_out = attempt("root", None, lambda: got.setdefault("root", A.root))
                root = got.get("root")
                if root is None:
                    return
                if wl["w"] == "sync":
                    for i in range(wl["n"]):
                        attempt("sync%d" % i, "tok%d" % i, lambda i=i: root.echo("tok%d" % i))
                elif wl["w"] == "async":
                    ech = []
                    attempt("getattr", None, lambda: ech.append(rpyc.async_(root.echo)))
                    if ech:
                        rs = []
                        for i in range(wl["n"]):
                            attempt("issue%d" % i, None, lambda i=i: rs.append((i, ech[0]("tok%d" % i))) or 0)
                        for i, r in rs:
                            attempt("collect%d" % i, "tok%d" % i, lambda r=r: r.value)
                elif wl["w"] == "nested":
                    def cb(d, tok):
                        return root.nest(d, cb, tok)
                    attempt("nested", "deep", lambda: root.nest(wl["d"], cb, "deep"))
                    attempt("after", "x", lambda: root.echo("x"))
                else:
                    mine = [7, 8]
                    held = []
                    attempt("make", None, lambda: held.append(root.make()) or 0)
                    attempt("hold", 2, lambda: root.hold(mine))
                    if held:
                        attempt("len-remote", 3, lambda: len(held[0]))
                    attempt("use-held", 2, lambda: root.use_held())
                if closing:
                    do_close()
            finally:
                stop_loop[0] = True
                if bg is not None:
                    bg._active = False

        def do_close():
            mode = closing["mode"]
            R["close_called"] = True
            if mode == "a-first":
                _safe(A.close)
            elif mode == "b-first":
                k.spawn(lambda: B.close(), name="closeB")
                k.sleep(0.01)
                attempt("after-b-close", "z", lambda: A.root.echo("z"))
            elif mode == "both":
                k.spawn(lambda: _safe(B.close), name="closeB")
                _safe(A.close)
            elif mode == "outstanding":
                r = []
                attempt("issue-out", None, lambda: r.append(rpyc.async_(A.root.echo)("o")) or 0)
                k.spawn(lambda: _safe(B.close), name="closeB")
                if r:
                    attempt("collect-out", "o", lambda: r[0].value)
            elif mode == "twice":
                _safe(A.close)
                _safe(A.close)
            elif mode == "a-overlap":
                # a second thread closes the SAME connection while the first close() is inside its transport write
                k.spawn(lambda: _safe(A.close), name="closeA2")
                _safe(A.close)

        def _safe(fn):
            try:
                fn()
            except sk.KernelAbort:
                raise
            except BaseException as ex:
                if isinstance(ex, ValueError) and case.get("before_closed") in ("raises", "remote-raises"):
                    return              # the hook's own failure may surface from close()
                R["problems"].append(("close-raised", type(ex).__name__, str(ex)[:100]))

        k.spawn(serve_b, name="serve-B", daemon=True)
        t = k.spawn(workload, name="driver")
        k.run()
        if t.exc is not None:
            R["problems"].append(("driver-raised", type(t.exc).__name__, (t.exc_tb or "")[-300:]))
        if k.deadlock:
            R["problems"].append(("hang", "a request or close never returned", k.deadlock))
        R["ops"] = dict((n, list(streams[n].ops)) for n in ("A", "B")) if record else None
        R["totals"] = dict((n, [streams[n].nread, streams[n].nwritten, streams[n].npolls]) for n in ("A", "B"))
        R["fault_fired"] = fault and streams[fault["side"]].fault_fired
        # ---- state at quiescence (before teardown), then the post-mortem clauses run as one more task
        state0 = dict((n, [conns[n].closed, disc[n]]) for n in ("A", "B"))
        R["state"] = state0
        if not k.deadlock:
            P = R["problems"]
            if fault and R["fault_fired"] is not None and R["fault_in_serve"]:
                if not conns[fault["side"]].closed:
                    P.append(("not-closed", "side met the failure inside serve() but still reports open", {"side": fault["side"],
                                                                                                             "fault": R["fault_fired"]}))
            if closing and R.get("close_called") and closing["mode"] in ("a-first", "twice", "both", "a-overlap") and not A.closed:
                P.append(("not-closed", "side that called close() reports open", "A"))
            for n in ("A", "B"):
                c = conns[n]
                if disc[n] > 1:
                    P.append(("hook-twice", "disconnect hook ran %d times" % disc[n], n))
                if c.closed:
                    if disc[n] != 1:
                        P.append(("hook-count", "closed side ran its disconnect hook %d times" % disc[n], n))
                    if c._local_objects._dict:
                        P.append(("not-released", "closed side still holds objects for the peer", [n, len(c._local_objects._dict)]))
                    if c._proxy_cache._dict:
                        P.append(("not-released", "closed side still caches proxies", [n, len(c._proxy_cache._dict)]))

            def postmortem():
                for n in ("A", "B"):
                    c = conns[n]
                    if c.closed:
                        before = disc[n]
                        try:
                            c.close()
                        except BaseException as ex:
                            P.append(("close-again", "second close raised %s" % type(ex).__name__, n))
                        if disc[n] != before:
                            P.append(("close-again", "second close ran the disconnect hook again", n))
                        try:
                            c.sync_request(rpyc.core.consts.HANDLE_PING, "late")
                            P.append(("late-request", "request on a closed side returned", n))
                        except EOFError:
                            pass
                        except sk.KernelAbort:
                            raise
                        except BaseException as ex:
                            P.append(("late-request", "request on a closed side raised %s instead of EOFError" % type(ex).__name__, n))
            tp = k.spawn(postmortem, name="postmortem")
            k.run()
            if tp.exc is not None:
                P.append(("driver-raised", "postmortem:" + type(tp.exc).__name__, (tp.exc_tb or "")[-300:]))
            if k.deadlock:
                P.append(("hang", "request after the end never returned", k.deadlock))
        A._closed = B._closed = True
    return R


def fault_plans(wl):
    """clean run -> every plan (side, kind, pos) with a class label"""
    clean = run_scenario({"workload": wl}, record=True)
    if clean["problems"]:
        return None, clean
    plans = []
    for side in ("A", "B"):
        roff = woff = 0
        npoll = 0
        for kind, size in clean["ops"][side]:
            if kind == "poll":
                npoll += 1
                plans.append({"side": side, "kind": "poll", "pos": npoll, "cls": "poll"})
            elif kind == "read":
                for off, cls in _offsets(size):
                    plans.append({"side": side, "kind": "in", "pos": roff + off, "cls": "read-" + cls})
                roff += size
            elif kind == "write":
                for off, cls in _offsets(size):
                    plans.append({"side": side, "kind": "out", "pos": woff + off, "cls": "write-" + cls})
                woff += size
    seen = set()
    out = []
    for p in plans:
        key = (p["side"], p["kind"], p["pos"])
        if key not in seen:
            seen.add(key)
            out.append(p)
    return out, clean


def _offsets(size):
    if size <= 0:
        return [(0, "boundary")]
    offs = [(0, "boundary"), (1, "inside"), (size // 2, "inside"), (size - 1, "inside-last-byte")]
    seen = set()
    out = []
    for o, c in offs:
        if 0 <= o < size and o not in seen:
            seen.add(o)
            out.append((o, c if o else "boundary"))
    return out


def judge(case, R, rec):
    fault = case.get("fault")
    closing = case.get("close")
    wl = case["workload"]
    classes = ["workload:%s%s" % (wl["w"], "+bg" if wl["bg"] else "")]
    nontrivial = False
    if fault:
        classes += ["fault:%s/%s" % (fault["side"], fault["kind"]), "fault-class:" + fault.get("cls", "?")]
        fired = R.get("fault_fired")
        classes.append("fault-fired:%s" % (fired[0] if fired else "not-reached"))
        if R.get("fault_in_serve"):
            classes.append("fault-met-inside-serve")
        nontrivial = "inside" in fault.get("cls", "") or wl["w"] == "nested" or (fired and fired[0] == "write")
    if closing:
        classes.append("close:" + closing["mode"])
        if case.get("before_closed"):
            classes.append("before_closed-hook:" + case["before_closed"])
        if case.get("hook_yields"):
            classes.append("disconnect-hook-yields")
        nontrivial = closing["mode"] in ("both", "outstanding", "b-first", "a-overlap")
    for o in R["outcomes"]:
        classes.append("outcome:" + o[1])
    key = {"workload": wl, "fault": fault and [fault["side"], fault["kind"], fault["pos"]], "close": closing,
           "sched": case.get("preempt")}
    rec.case(key, nontrivial, classes)
    return [Failure(cl, k_, case, det) for cl, k_, det in R["problems"][:3]]


def check_plan(case, rec):
    ch = None
    trace = False
    if case.get("preempt") is not None:
        ch = sk.ListChooser(case["preempt"], case.get("np", []))
        trace = True
    R = run_scenario(case, ch, trace)
    return judge(case, R, rec)


def close_cases():
    return st.fixed_dictionaries({
        # a second serving thread without request timeout + preemption reproduces C14's known stall windows as hangs:
        # those workloads take part in the fault plans only
        "part": st.just("close"), "workload": st.sampled_from([w for w in WORKLOADS if not w.get("loop")]),
        "close": st.fixed_dictionaries({"mode": st.sampled_from(["a-first", "b-first", "both", "both", "outstanding", "twice",
                                                                  "a-overlap", "a-overlap"])}),
        "hook_recloses": st.booleans(), "hook_yields": st.booleans(), "before_closed": st.sampled_from([None, None, "ok", "raises", "remote-raises"]),
        "preempt": st.lists(st.tuples(st.integers(0, 40), st.integers(0, 3)).map(list), max_size=4),
        "np": st.lists(st.integers(0, 3), max_size=8)})


# ---- real sockets: a thread blocked in a request must be released when another thread closes the connection locally ----
def check_real_close(case, rec):
    import socket
    import threading
    import time
    import rpyc
    from rpyc.core.stream import SocketStream
    from rpyc.core.channel import Channel
    rec.case(case, True, ["real-close:%s/%s" % (case["transport"], case["blocked_in"])])
    if case["transport"] == "socketpair":
        a, b = socket.socketpair()
    else:
        lst = socket.socket()
        lst.bind(("127.0.0.1", 0))
        lst.listen(1)
        a = socket.create_connection(lst.getsockname())
        b, _ = lst.accept()
        lst.close()
    disc = []

    class Svc(rpyc.Service):
        def on_disconnect(self, conn):
            disc.append(1)
    conn = Svc()._connect(Channel(SocketStream(a)), {"sync_request_timeout": None})
    out = {}

    def blocked():
        try:
            if case["blocked_in"] == "request":
                conn.sync_request(rpyc.core.consts.HANDLE_PING, "never answered")      # the peer stays silent
            else:
                conn.serve(None)
            out["r"] = "returned"
        except EOFError:
            out["r"] = "EOFError"
        except Exception as ex:
            out["r"] = type(ex).__name__
    t = threading.Thread(target=blocked)
    t.daemon = True
    t.start()
    time.sleep(0.2)                    # the thread now sits in poll() on the socket
    t0 = time.time()
    conn.close()
    t.join(5.0)
    fails = []
    if t.is_alive():
        fails.append(Failure("hang", "thread blocked in a %s still hanging 5 s after a local close() (silent peer, real socket)" % case["blocked_in"],
                             case, None))
        try:
            b.close()                 # let it go
        except Exception:
            pass
        t.join(2.0)
    elif out.get("r") != "EOFError":
        fails.append(Failure("request-failed-otherwise", str(out.get("r")), case, out.get("r"), "EOFError"))
    if len(disc) != 1:
        fails.append(Failure("hook-count", "closed side ran its disconnect hook %d times" % len(disc), case))
    for s in (a, b):
        try:
            s.close()
        except Exception:
            pass
    return fails


def plan(tier, scale):
    out = [{"part": "real-close", "transport": tr, "blocked_in": bl} for tr in ("socketpair", "tcp") for bl in ("request", "serve")]
    for i, wl in enumerate(WORKLOADS):
        out.append({"part": "faults", "workload": wl, "stride": 1 if tier == "thorough" else 5, "offset": i % 5})
    n = 120 if tier == "quick" else 6000
    out += [{"part": "close", "n": int(n * scale)} for _ in range(4)]
    return out


def run_shard(desc, seed, rec, tier):
    if desc["part"] == "real-close":
        case = dict(desc)
        fails = check_real_close(case, rec)
        if fails and fails[0].clause == "hang":
            fails = check_real_close(case, rec)        # real time: confirm once more before it counts
        for f in rec.triage(fails):
            rec.violation(f)
        return
    if desc["part"] == "faults":
        plans, clean = fault_plans(desc["workload"])
        if plans is None:
            for f in rec.triage([Failure("clean-run", k_, {"workload": desc["workload"]}, det) for _, k_, det in clean["problems"][:2]]):
                rec.violation(f)
            return
        rec.count("plans-total", len(plans))
        chosen = plans[desc["offset"] % desc["stride"]::desc["stride"]] if desc["stride"] > 1 else plans
        # always include every write-fault plan (reply-write failures are the rare class)
        if desc["stride"] > 1:
            extra = [p for p in plans if p["kind"] == "out" and p not in chosen][::2]
            chosen = chosen + extra
        rec.count("plans-run", len(chosen))
        for p in chosen:
            case = {"part": "faults", "workload": desc["workload"], "fault": p}
            R = run_scenario(case)
            if R["problems"] and __import__("os").environ.get("C11_DEBUG"):
                import sys as _s
                _s.stderr.write("C11DEBUG %r\n  totals=%r clean=%r\n  outcomes=%r state=%r fired=%r inserve=%r\n" % (
                    case, R["totals"], clean["totals"], R["outcomes"], R["state"], R["fault_fired"], R["fault_in_serve"]))
            for f in rec.triage(judge(case, R, rec)):
                rec.violation(f)
        if desc["stride"] == 1:
            rec.exhaustive = True
    else:
        drive(rec, close_cases(), lambda c: check_plan(c, rec), desc["n"], seed)


def replay(case, rec):
    if case.get("part") == "real-close":
        return check_real_close(case, rec)
    return check_plan(case, rec)
