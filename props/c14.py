"""C14 - a waiter returns as soon as its reply has been processed by any thread."""
from hypothesis import strategies as st

from vlib import simkernel as sk
from vlib import refcodec as rc
from vlib.refpeer import RawPeer, box_value
from vlib.hyp import drive
from vlib.runner import Failure

ID = "C14"
LEVEL = "exploration"
RULE = ("case = (request timeout, reply delay, serving thread kind, unrelated later traffic, schedule). The caller thread "
        "issues one synchronous-style request on a real Connection whose peer is a scripted raw speaker; a second thread "
        "(BgServingThread or a serve() loop) serves the same connection. Every source line of Connection.serve, "
        "AsyncResult.wait and BgServingThread._bg_server is a preemption point; schedules are Hypothesis-generated "
        "preemption lists and preemption-bounded DFS. oracle: virtual time at which the caller returns == virtual time at "
        "which its reply was dispatched (the clock only moves when every thread is blocked). non-trivial = the reply was "
        "received by the other thread, or a preemption was taken inside serve()/wait(). distinct by executed switch "
        "sequence. Each schedule is run with the notify->dispatch window open (finding F4 expected) and closed.")
ASSUMPTIONS = ["preemption at source-line granularity of serve/wait/_bg_server; SimCondition mirrors threading.Condition",
               "the scripted peer answers exactly once; virtual clock advances only when all threads are blocked"]

KNOWN_KEYS = ("blocked-between-receive-and-dispatch", "blocked-after-reply-dispatched")


def _serve_lock_line():
    """line number (in protocol.py) of serve()'s try-acquire of the receive lock; None if the code was restructured"""
    import inspect
    import rpyc.core.protocol as protocol
    try:
        lines, start = inspect.getsourcelines(protocol.Connection.serve)
    except Exception:
        return None
    for i, ln in enumerate(lines):
        if "_recvlock.acquire(" in ln:
            return start + i
    return None


def run_case(case, chooser):
    import rpyc
    from rpyc.core import consts
    from rpyc.core.channel import Channel
    from rpyc.core.async_ import AsyncResultTimeout
    import rpyc.core.protocol as protocol
    import rpyc.core.async_ as async_
    import rpyc.utils.helpers as helpers
    k = sk.Kernel(chooser, trace_files=[protocol.__file__, async_.__file__, helpers.__file__],
                  trace_funcs=["serve", "wait", "_bg_server", "value", "poll_all"], max_time=120.0, max_steps=200000)
    ncallers = case.get("callers", 1)
    callers = [{"name": "caller%d" % i, "token": "tok-%d" % i, "poll_state": None, "t_dispatch": None, "t_return": None,
                "outcome": None} for i in range(ncallers)]
    byname = dict((c["name"], c) for c in callers)
    st_ = {"receiver": None, "excluded": 0, "callers": callers}
    closed_window = case["window"] == "closed"
    lock_line = _serve_lock_line()
    with k.installed():
        link = sk.Link(k)
        conn = rpyc.VoidService()._connect(Channel(link.a), {})
        peer = RawPeer(link.b)
        pending = [0]
        window_owner = [None]
        orig_dispatch = conn._dispatch
        orig_wait, orig_notify_all, orig_notify, orig_serve = (conn._recv_event.wait, conn._recv_event.notify_all,
                                                               conn._recv_event.notify, conn.serve)

        def note_block():
            """state of the caller's reply at the moment the caller starts a blocking wait"""
            me = k.me()
            c = byname.get(me.name) if me is not None else None
            if c is not None:
                if c["t_dispatch"] is not None:
                    c["poll_state"] = "blocked-after-reply-dispatched"
                elif pending[0] > 0:
                    c["poll_state"] = "blocked-between-receive-and-dispatch"
                else:
                    c["poll_state"] = "normal"

        class Chan(object):      # Channel uses __slots__: wrap it
            def __init__(self, ch):
                self._ch = ch

            def recv(self):
                d = self._ch.recv()
                if closed_window:
                    window_owner[0] = k.me()     # receiver holds an undispatched packet: atomic until dispatched
                pending[0] += 1
                st_["receiver"] = k.me().name
                return d

            def poll(self, timeout):
                note_block()
                return self._ch.poll(timeout)

            def __getattr__(self, name):
                return getattr(self._ch, name)
        conn._channel = Chan(conn._channel)

        def dispatch(data):
            try:
                return orig_dispatch(data)
            finally:
                pending[0] -= 1
        conn._dispatch = dispatch

        def wait(timeout=None):
            note_block()
            return orig_wait(timeout)
        conn._recv_event.wait = wait

        def notify_all():
            if closed_window:
                window_owner[0] = k.me()
            return orig_notify_all()

        def notify(n=1):
            if closed_window:
                window_owner[0] = k.me()
            return orig_notify(n)
        conn._recv_event.notify_all = notify_all
        conn._recv_event.notify = notify

        def serve(*a, **kw):
            try:
                return orig_serve(*a, **kw)
            finally:
                if window_owner[0] is k.me():
                    window_owner[0] = None
        conn.serve = serve
        if closed_window:
            real_yield = k.yield_point

            def guarded_yield(tag=None):
                me = k.me()
                if window_owner[0] is not None and window_owner[0] is me:
                    st_["excluded"] += 1         # receiver: notify -> dispatch made atomic (finding F4 excluded)
                    return
                if getattr(conn._recv_event._lock, "owner", None) is me and me is not None:
                    # nobody is preempted while holding the condition's lock, so that a waiter's atomic section below never
                    # blocks on it - except a single caller that has already failed to take the receive lock and is about to
                    # wait (with one caller no other waiter exists whose atomic section could be split by that)
                    if not (ncallers == 1 and me.name in byname and tag and tag[0] == "line" and tag[1] == "serve"
                            and lock_line is not None and tag[2] > lock_line):
                        st_["excluded"] += 1
                        return
                    return real_yield(tag)
                if me is not None and me.name in byname and tag and tag[0] == "line":
                    # waiter: readiness test in wait() -> try-acquire of the receive lock in serve() made atomic (F4b)
                    if tag[1] == "wait" or (tag[1] == "serve" and lock_line is not None and tag[2] <= lock_line):
                        st_["excluded"] += 1
                        return
                return real_yield(tag)
            k.yield_point = guarded_yield

        stop = [False]

        def peer_task():
            seqs = {}
            for _ in range(ncallers):
                kind, seq, args = peer.recv_msg()
                seqs[args[1][1][0]] = seq            # (handler, (LABEL_VALUE, (token,)))
            order = [callers[i % ncallers]["token"] for i in case.get("order", range(ncallers))]
            seen = []
            for t in order + [c["token"] for c in callers]:
                if t not in seen:
                    seen.append(t)
            for i, tok in enumerate(seen):
                d = case["delay"] if i == 0 else case.get("gap", 0)
                if d:
                    k.sleep(d)
                peer.reply(seqs[tok], box_value(tok))
            if case["extra_at"] is not None:
                k.sleep(case["extra_at"])
                peer.request(rc.HANDLERS["PING"], box_value(("unrelated",)))
                peer.recv_msg()

        def loop_server():
            # a serving loop that survives what a dispatched callback raises (as an application's own loop would)
            while not stop[0] and not conn.closed:
                try:
                    conn.serve(1.0)
                except EOFError:
                    return
                except sk.KernelAbort:
                    raise
                except Exception:
                    st_["server_saw_callback_error"] = True

        def poll_server():
            # the same, but through poll(): it never queues behind the receive lock
            while not stop[0] and not conn.closed:
                try:
                    if not conn.poll(1.0):
                        k.sleep(0.01)
                except EOFError:
                    return
                except sk.KernelAbort:
                    raise
                except Exception:
                    st_["server_saw_callback_error"] = True

        done = [0]

        def caller(c):
            res = conn.async_request(consts.HANDLE_PING, c["token"], timeout=case["timeout"])
            res.add_callback(lambda r: c.__setitem__("t_dispatch", k.now))
            if case.get("cb_raises"):
                def bad_callback(r):
                    raise RuntimeError("application callback failed")
                try:
                    res.add_callback(bad_callback)
                except RuntimeError:
                    pass                   # the reply had been dispatched already: the callback ran (and failed) right here
            try:
                for _attempt in range(2 * ncallers + 1):
                    try:
                        v = res.value
                        break
                    except RuntimeError:
                        continue           # some reply's callback failed in this very thread while it was serving: ask again
                c["outcome"] = ["value", v]
            except AsyncResultTimeout:
                c["outcome"] = ["timeout"]
            c["t_return"] = k.now
            done[0] += 1
            if done[0] == ncallers:
                stop[0] = True
                if bgs:
                    bgs[0]._active = False

        bgs = []

        def starter():
            if case["server"] == "bg":
                bgs.append(helpers.BgServingThread(conn))
            elif case["server"] == "loop":
                k.spawn(loop_server, name="loop-server", daemon=True)
            elif case["server"] == "poll":
                k.spawn(poll_server, name="poll-server", daemon=True)
            for c in callers[1:]:
                k.spawn(caller, c, name=c["name"])
            caller(callers[0])

        k.spawn(peer_task, name="peer", daemon=True, trace=False)
        k.spawn(starter, name="caller0")
        k.run()
        st_["deadlock"] = k.deadlock
        st_["horizon"] = k.horizon_hit
        st_["now"] = k.now
        st_["taken"] = list(getattr(chooser, "taken", []))
        st_["decisions"] = k.decisions
        conn._closed = True
    return st_


def judge(case, s):
    problems = []
    closed = case["window"] == "closed"
    for c in s["callers"]:
        if closed:
            key_stall = "with-both-known-windows-closed"
        else:
            key_stall = c["poll_state"] if c["poll_state"] in KNOWN_KEYS else "other"
        if c["t_return"] is None:
            if c["t_dispatch"] is not None:
                problems.append(("stall", key_stall, {"caller": c["name"], "dispatched_at": c["t_dispatch"],
                                                      "returned": "never", "deadlock": s["deadlock"],
                                                      "horizon": s["horizon"]}))
            else:
                problems.append(("hang", "reply never dispatched and caller never returned",
                                 {"caller": c["name"], "deadlock": s["deadlock"]}))
        elif c["t_dispatch"] is not None:
            if c["t_return"] > c["t_dispatch"] + 1e-9:
                problems.append(("stall", key_stall, {"caller": c["name"], "dispatched_at": c["t_dispatch"],
                                                      "returned_at": c["t_return"], "outcome": c["outcome"]}))
            elif c["outcome"] != ["value", c["token"]]:
                problems.append(("wrong-outcome", str(c["outcome"][0]), c["outcome"]))
        else:
            problems.append(("no-dispatch", "caller returned %s without its reply being dispatched" % (c["outcome"][0],),
                             c["outcome"]))
    return problems


def check(case, chooser, rec, trail=None):
    s = run_case(case, chooser)
    problems = judge(case, s)
    taken = [t[0] for t in s["taken"]]
    nontrivial = (s["receiver"] is not None and not s["receiver"].startswith("caller")) or bool(taken)
    classes = ["callback-raises"] if case.get("cb_raises") else []
    classes += ["server:%s" % case["server"], "window:%s" % case["window"], "receiver:%s" % s["receiver"],
               "timeout:%s" % case["timeout"], "extra:%s" % (case["extra_at"] is not None)]
    classes.append("callers:%d" % len(s["callers"]))
    for c in s["callers"]:
        if c["poll_state"] in KNOWN_KEYS:
            classes.append("caller-" + c["poll_state"])
    key = dict(case)
    key["executed"] = taken if trail is None else trail
    rec.case(key, nontrivial, classes)
    rec.count("closed-window yields suppressed", s["excluded"])
    out = dict(case)
    if trail is not None:
        out["trail"] = trail
    return [Failure(cl, k_, out, d) for cl, k_, d in problems]


def cases():
    return st.fixed_dictionaries({
        "part": st.just("random"),
        "timeout": st.sampled_from([None, 5, 30]),
        "delay": st.sampled_from([0, 0, 0.05, 0.1, 0.25, 1.0, 2.5]),
        "server": st.sampled_from(["bg", "loop", "loop", "none", "poll"]),
        "cb_raises": st.sampled_from([False, False, True]),
        "extra_at": st.one_of(st.none(), st.sampled_from([0.5, 3.0])),
        "callers": st.sampled_from([1, 1, 2]),
        "order": st.permutations([0, 1]),
        "gap": st.sampled_from([0, 0.3]),
        "window": st.sampled_from(["open", "closed", "closed"]),
        "preempt": st.lists(st.tuples(st.integers(0, 45), st.integers(0, 3)).map(list), max_size=4),
        "np": st.lists(st.integers(0, 3), max_size=8),
    })


def check_random(case, rec):
    return check(case, sk.ListChooser(case["preempt"], case["np"]), rec)


def dfs(base, bound, rec, limit=None):
    prefix = []
    n = 0
    while prefix is not None:
        ch = sk.TrailChooser(prefix, bound)
        case = dict(base, part="dfs", bound=bound)
        trail_holder = []
        fails = check(case, ch, rec, trail=None)
        trail = [c for c, _ in ch.trail]
        for f in fails:
            f.case = dict(case, trail=trail)
        n += 1
        for f in rec.triage(fails):
            rec.violation(f)
        if rec.failures and n > 50:          # a broken tree: the verdict is known, do not enumerate every failing schedule
            rec.count("dfs stopped early after violations")
            break
        if limit and n >= limit:
            break
        prefix = ch.next_prefix()
    return n


def plan(tier, scale):
    bases = [{"timeout": 30, "delay": 0.25, "server": "loop", "extra_at": None, "window": "closed", "callers": 2,
              "order": [1, 0], "gap": 0.5},
             {"timeout": 30, "delay": 0, "server": "bg", "extra_at": None, "window": "closed", "callers": 2,
              "order": [1, 0], "gap": 0}]
    for server in ("loop", "bg"):
        for window in ("open", "closed"):
            for delay in (0, 0.25):
                bases.append({"timeout": 30, "delay": delay, "server": server, "extra_at": None, "window": window})
    # a receiver that comes through poll(), and a completion callback that raises in whichever thread dispatches the reply
    bases.append({"timeout": 30, "delay": 0.25, "server": "poll", "extra_at": None, "window": "closed"})
    bases.append({"timeout": 30, "delay": 0.25, "server": "loop", "extra_at": None, "window": "closed", "cb_raises": True})
    bases.append({"timeout": 30, "delay": 0, "server": "poll", "extra_at": None, "window": "closed", "cb_raises": True})
    if tier == "quick":
        out = [{"part": "random", "n": int(350 * scale)} for _ in range(8)]
        out += [{"part": "dfs", "base": b, "bound": 2 if (b["server"] == "loop" and b["delay"] == 0) else 1} for b in bases]
        return out
    out = [{"part": "random", "n": int(8000 * scale)} for _ in range(8)]
    out += [{"part": "dfs", "base": b, "bound": 3 if (b["delay"] == 0 and b["server"] == "loop" and b.get("callers", 1) == 1) else 2} for b in bases]
    out += [{"part": "dfs", "base": dict(b, timeout=None, extra_at=3.0), "bound": 2} for b in bases if b["delay"] == 0]
    return out


def run_shard(desc, seed, rec, tier):
    if desc["part"] == "random":
        drive(rec, cases(), lambda c: check_random(c, rec), desc["n"], seed)
    else:
        n = dfs(desc["base"], desc["bound"], rec)
        rec.count("dfs_schedules", n)


def replay(case, rec):
    if case.get("part") == "dfs":
        return check(case, sk.TrailChooser(case.get("trail", []), case.get("bound")), rec)
    return check_random(case, rec)
