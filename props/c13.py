"""C13 - threads sharing a connection never cross, duplicate or lose replies."""
from hypothesis import strategies as st

from vlib import simkernel as sk
from vlib import refcodec as rc
from vlib.refpeer import RawPeer, box_value
from vlib.hyp import drive
from vlib.runner import Failure

ID = "C13"
LEVEL = "exploration"
RULE = ("case = (requests per client thread, optional BgServingThread, the peer's answer plan incl. out-of-order answers "
        "and unsolicited requests - also pairs of requests that FAIL in different functions of the local service, whose exception "
        "replies must each carry their own remote traceback -, schedule). 2-3 threads issue synchronous requests on ONE real Connection against a "
        "scripted raw peer; every source line of serve/_dispatch*/_seq_request_callback/_async_request/_get_seq_id/_send/"
        "AsyncResult.__call__/wait/_bg_server is a preemption point. Schedules: Hypothesis-generated preemption lists "
        "(bound 3 quick, 5 thorough) plus preemption-bounded DFS on the smallest shape. oracle: every request returns "
        "exactly its own token (a client thread may instead issue the request asynchronously and register a completion callback, "
        "which must then run exactly once with that token), request sequence numbers pairwise distinct, every frame the peer sent was dispatched "
        "exactly once, nobody ends in a timeout, no deadlock, and never 'virtual time advances while a thread sleeps on "
        "the receive condition with the receive lock free and unread data available'. non-trivial = at least one "
        "preemption taken, or replies answered out of order, or a reply received by a thread other than its requester. "
        "distinct by executed switch sequence + plan.")
ASSUMPTIONS = ["preemption at source-line granularity of the traced functions; itertools.count.__next__ atomic",
               "a thread that is merely late because of known finding F4/F4b (C14) still gets the right value; lateness is C14's"]

TRACED = ["serve", "_dispatch", "_dispatch_request", "_seq_request_callback", "_async_request", "_get_seq_id", "_send",
          "__call__", "wait", "_bg_server", "async_request", "sync_request", "value", "poll_all", "poll", "add_callback", "_box_exc"]


def run_case(case, chooser):
    import rpyc
    from rpyc.core import consts
    from rpyc.core.channel import Channel
    import rpyc.core.protocol as protocol
    import rpyc.core.async_ as async_
    import rpyc.utils.helpers as helpers
    k = sk.Kernel(chooser, trace_files=[protocol.__file__, async_.__file__, helpers.__file__], trace_funcs=TRACED,
                  max_time=400.0, max_steps=400000)
    reqs = case["reqs"]
    total = sum(reqs)
    out = {"results": {}, "problems": [], "lost_wakeup": None}
    with k.installed():
        link = sk.Link(k)
        class Failing(rpyc.Service):
            # two requests of the peer's that fail in different functions: each exception must carry its OWN remote traceback
            def exposed_fail_a(self):
                raise ValueError("a")

            def exposed_fail_b(self):
                raise KeyError("b")
        conn = Failing()._connect(Channel(link.a), {"sync_request_timeout": 30})
        root_id = conn._box(conn._local_root)[1]        # as a GETROOT request would register it
        peer = RawPeer(link.b)
        failing = {}               # seq -> name of the function that request fails in
        exc_replies = out["exc_replies"] = {}
        dispatched = []
        receivers = []
        orig_dispatch = conn._dispatch

        def dispatch(data):
            dispatched.append(bytes(data))
            receivers.append(k.me().name)
            return orig_dispatch(data)
        conn._dispatch = dispatch

        def on_time_advance(kern, t0, t1):
            # lost wake-up: somebody sleeps on the receive condition although the lock is free and data is there
            if out["lost_wakeup"] is None and link.a.inbox and not conn._recvlock.locked():
                for t in kern.tasks:
                    if t.state == sk.BLOCKED and t.site and t.site[0] == "cond.wait" and t.site[1] == id(conn._recv_event):
                        out["lost_wakeup"] = {"task": t.name, "at": t0, "until": t1, "unread_bytes": len(link.a.inbox)}
        k.on_time_advance = on_time_advance

        sent_frames = []
        seen_req_seqs = []
        plan = list(case["plan"])

        def peer_task():
            outstanding = []       # (seq, token)
            answered = 0
            unsolicited = 0

            def take(msg):
                kind, seq, args = msg
                if kind == rc.MSG_REQUEST:
                    seen_req_seqs.append(seq)
                    outstanding.append((seq, args[1][1][0]))
                elif kind == rc.MSG_EXCEPTION and seq in failing:
                    exc_replies[seq] = args

            def send_reply(seq, tok):
                peer.reply(seq, box_value(tok))
                sent_frames.append(rc.dump((rc.MSG_REPLY, seq, box_value(tok))))

            while answered < total:
                if not outstanding:
                    take(peer.recv_msg())
                    continue
                act = plan.pop(0) if plan else ["A", 0]
                if act[0] == "W":
                    while peer.poll(0):
                        take(peer.recv_msg())
                elif act[0] == "U" and unsolicited < 3:
                    unsolicited += 1
                    seq = 10 ** 6 + unsolicited
                    peer.send_msg(rc.MSG_REQUEST, seq, (rc.HANDLERS["PING"], box_value(("unsolicited-%d" % unsolicited,))))
                    sent_frames.append(rc.dump((rc.MSG_REQUEST, seq, (rc.HANDLERS["PING"],
                                                                      box_value(("unsolicited-%d" % unsolicited,))))))
                elif act[0] == "F" and unsolicited < 3:
                    unsolicited += 1
                    seq = 10 ** 6 + unsolicited
                    fname = "fail_a" if len(failing) % 2 == 0 else "fail_b"
                    failing[seq] = fname
                    body = (rc.HANDLERS["CALLATTR"], (rc.LABEL_TUPLE, ((rc.LABEL_LOCAL_REF, root_id), (rc.LABEL_VALUE, fname),
                                                                       (rc.LABEL_VALUE, ()), (rc.LABEL_VALUE, ()))))
                    peer.send_msg(rc.MSG_REQUEST, seq, body)
                    sent_frames.append(rc.dump((rc.MSG_REQUEST, seq, body)))
                elif act[0] == "S":
                    k.sleep(act[1] / 10.0)
                else:
                    seq, tok = outstanding.pop(act[1] % len(outstanding))
                    if act[1] % (len(outstanding) + 1):
                        out["out_of_order"] = True
                    send_reply(seq, tok)
                    answered += 1
            while True:
                take(peer.recv_msg())     # replies to our unsolicited requests

        done = [0]
        bgs = []

        cb_runs = out["cb_runs"] = {}
        style = case.get("style") or []

        def client(ci):
            for j in range(reqs[ci]):
                tok = "c%dr%d" % (ci, j)
                try:
                    if ci < len(style) and style[ci] == "cb":
                        # asynchronous request + completion callback registered while the reply may already be on its way
                        res = conn.async_request(consts.HANDLE_PING, tok, timeout=30)
                        cb_runs[tok] = []
                        res.add_callback(lambda r, _t=tok: cb_runs[_t].append(r.value if r.ready and not r.error else "<not a value>"))
                        v = res.value
                    else:
                        v = conn.sync_request(consts.HANDLE_PING, tok)
                    out["results"][tok] = ["value", v]
                except sk.KernelAbort:
                    raise
                except BaseException as ex:
                    out["results"][tok] = ["raised", type(ex).__name__, str(ex)[:100]]
            done[0] += 1
            if done[0] == len(reqs) and bgs:
                bgs[0]._active = False

        def starter():
            if case["bg"]:
                bgs.append(helpers.BgServingThread(conn))
            for ci in range(1, len(reqs)):
                k.spawn(client, ci, name="client%d" % ci)
            client(0)

        k.spawn(peer_task, name="peer", daemon=True, trace=False)
        k.spawn(starter, name="client0")
        k.run()
        # ---- oracle at quiescence
        P = out["problems"]
        if k.deadlock:
            P.append(("deadlock", "client threads blocked" if not k.horizon_hit else "no progress until the horizon",
                      k.deadlock))
        for ci, n in enumerate(reqs):
            for j in range(n):
                tok = "c%dr%d" % (ci, j)
                r = out["results"].get(tok)
                if r is None:
                    if not k.deadlock:
                        P.append(("no-outcome", "request never completed", tok))
                elif r[0] == "raised":
                    P.append(("request-raised", r[1], [tok] + r[1:]))
                elif r[1] != tok:
                    P.append(("crossed-reply", "request got another request's reply", [tok, r[1]]))
        if not k.deadlock:
            for tok, runs in sorted(cb_runs.items()):
                if out["results"].get(tok, [None])[0] == "value" and runs != [tok]:
                    P.append(("callback", "completion callback ran %d times" % len(runs) if len(runs) != 1 else
                              "completion callback saw another value", [tok, runs]))
        for seq, fname in sorted(failing.items()):
            got = exc_replies.get(seq)
            if got is None:
                continue                 # (answered after the run ended, or never: completion of the peer's requests is C08's)
            tb_text = got[3] if type(got) is tuple and len(got) > 3 and type(got[3]) is str else repr(got)
            other = "fail_b" if fname == "fail_a" else "fail_a"
            if ("exposed_" + other) in tb_text or ("exposed_" + fname) not in tb_text:
                P.append(("foreign-traceback", "an exception reply carries the remote traceback of another request",
                          {"request": fname, "traceback-tail": tb_text[-160:]}))
        if len(set(seen_req_seqs)) != len(seen_req_seqs):
            P.append(("seq-reused", "two requests carried the same sequence number", sorted(seen_req_seqs)))
        if not k.deadlock:
            want = sorted(sent_frames)
            got = sorted(dispatched)
            if want != got:
                dup = len(got) - len(set(got))
                P.append(("dispatch-count", "duplicated" if dup else ("lost" if len(got) < len(want) else "different"),
                          {"sent": len(want), "dispatched": len(got)}))
        if out["lost_wakeup"]:
            P.append(("lost-wakeup", "sleeping on the receive condition with lock free and data unread", out["lost_wakeup"]))
        out["taken"] = list(getattr(chooser, "taken", []))
        out["np_taken"] = getattr(chooser, "np_taken", 0)
        out["decisions"] = k.decisions
        out["cross_received"] = any(not r.startswith("client") for r in receivers) or len(set(receivers)) > 1
        out["now"] = k.now
        conn._closed = True
    return out


def check(case, chooser, rec):
    o = run_case(case, chooser)
    taken = [t[0] for t in o["taken"]]
    nontrivial = bool(taken) or bool(o.get("out_of_order")) or o["cross_received"]
    classes = ["clients:%d" % len(case["reqs"]), "bg:%s" % case["bg"], "preemptions:%d" % len(taken),
               "out-of-order:%s" % bool(o.get("out_of_order")), "cross-received:%s" % o["cross_received"]]
    if "cb" in (case.get("style") or []):
        classes.append("async-with-callback")
    if sum(1 for a in case["plan"] if a[0] == "F") >= 2:
        classes.append("two-failing-requests-of-the-peer")
    if any(a[0] == "U" for a in case["plan"]):
        classes.append("unsolicited-request")
    for _, tag in o["taken"]:
        if tag and tag[0] == "line":
            classes.append("preempt-in:" + tag[1])
    key = {"reqs": case["reqs"], "bg": case["bg"], "plan": case["plan"], "executed": taken, "np": o["np_taken"], "style": case.get("style")}
    rec.case(key, nontrivial, classes)
    rec.count("decision_points", o["decisions"])
    return [Failure(cl, k_, case, d) for cl, k_, d in o["problems"][:3]]


def plans():
    act = st.one_of(st.tuples(st.just("A"), st.integers(0, 3)), st.tuples(st.just("A"), st.integers(0, 3)),
                    st.tuples(st.just("W"), st.just(0)), st.tuples(st.just("U"), st.just(0)), st.tuples(st.just("F"), st.just(0)),
                    st.tuples(st.just("S"), st.integers(1, 12))).map(list)
    prelude = st.sampled_from([[], [], [["S", 1], ["W", 0], ["A", 1]], [["S", 2], ["W", 0], ["A", 2], ["A", 1]],
                               [["S", 1], ["W", 0], ["U", 0], ["A", 1]], [["S", 1], ["W", 0], ["F", 0], ["F", 0]]])
    return st.tuples(prelude, st.lists(act, max_size=6)).map(lambda t: t[0] + t[1])


def cases(bound):
    return st.fixed_dictionaries({
        "part": st.just("random"),
        "reqs": st.lists(st.integers(1, 2), min_size=2, max_size=3),
        "bg": st.booleans(), "style": st.lists(st.sampled_from(["sync", "sync", "cb"]), min_size=3, max_size=3),
        "plan": plans(),
        "preempt": st.lists(st.tuples(st.integers(0, 90), st.integers(0, 3)).map(list), max_size=bound),
        "np": st.lists(st.integers(0, 3), max_size=10),
    })


def dfs(base, bound, rec, limit):
    prefix = []
    n = 0
    while prefix is not None and n < limit:
        ch = sk.TrailChooser(prefix, bound)
        case = dict(base, part="dfs", bound=bound)
        o = run_case(case, ch)
        trail = [c for c, _ in ch.trail]
        case["trail"] = trail
        rec.case({"dfs": base, "trail": trail}, any(trail), ["dfs bound=%d bg=%s" % (bound, base["bg"])])
        fails = [Failure(cl, k_, case, d) for cl, k_, d in o["problems"][:3]]
        for f in rec.triage(fails):
            rec.violation(f)
        n += 1
        if rec.failures and n > 50:          # a broken tree: the verdict is known, do not enumerate every failing schedule
            rec.count("dfs stopped early after violations")
            break
        prefix = ch.next_prefix()
    return n, prefix is None


def plan(tier, scale):
    if tier == "quick":
        out = [{"part": "random", "n": int(260 * scale), "bound": 3} for _ in range(12)]
        out += [{"part": "dfs", "base": {"reqs": [1, 1], "bg": bg, "plan": pl}, "bound": 1, "limit": 1500}
                for bg in (False, True) for pl in ([], [["W", 0], ["A", 1]])]
        out.append({"part": "dfs", "base": {"reqs": [1, 1], "bg": True, "plan": [], "style": ["cb", "sync"]}, "bound": 1, "limit": 9000})
        out.append({"part": "dfs", "base": {"reqs": [1, 1], "bg": True, "plan": [["S", 1], ["W", 0], ["F", 0], ["F", 0]]}, "bound": 1, "limit": 9000})
        return out
    out = [{"part": "random", "n": int(9000 * scale), "bound": 5} for _ in range(14)]
    out += [{"part": "dfs", "base": {"reqs": [1, 1], "bg": bg, "plan": pl}, "bound": 2, "limit": 60000}
            for bg in (False, True) for pl in ([], [["W", 0], ["A", 1]])]
    out.append({"part": "dfs", "base": {"reqs": [1, 1], "bg": True, "plan": [], "style": ["cb", "sync"]}, "bound": 2, "limit": 60000})
    out.append({"part": "dfs", "base": {"reqs": [1, 1], "bg": True, "plan": [["S", 1], ["W", 0], ["F", 0], ["F", 0]]}, "bound": 2, "limit": 60000})
    return out


def run_shard(desc, seed, rec, tier):
    if desc["part"] == "random":
        drive(rec, cases(desc["bound"]), lambda c: check(c, sk.ListChooser(c["preempt"], c["np"]), rec), desc["n"], seed)
    else:
        n, complete = dfs(desc["base"], desc["bound"], rec, desc["limit"])
        rec.count("dfs_schedules", n)
        rec.count("dfs_complete" if complete else "dfs_truncated")


def replay(case, rec):
    if case.get("part") == "dfs":
        ch = sk.TrailChooser(case["trail"], case["bound"])
    else:
        ch = sk.ListChooser(case["preempt"], case["np"])
    return check(case, ch, rec)
