"""atheris target: hostile message histories against a real Connection with C07's oracle inside.

libFuzzer's bytes are decoded into a history by Hypothesis (`fuzz_one_input` over props.c07.cases(), the same grammar the
generated-case tiers use), so coverage feedback from rpyc's protocol code steers the grammar's choices.  A violated oracle
raises and libFuzzer saves the input; vlib.fuzz re-decodes and re-judges it outside the fuzzer before it counts."""
import sys

import atheris

with atheris.instrument_imports(include=["rpyc.core.protocol", "rpyc.core.vinegar", "rpyc.core.netref", "rpyc.lib.colls",
                                         "rpyc.core.brine", "rpyc.core.service"]):
    import rpyc                        # noqa: F401
    import rpyc.core.protocol          # noqa: F401

from hypothesis import given          # noqa: E402

from vlib.runner import Recorder      # noqa: E402
from props import c07                 # noqa: E402

REC = Recorder("C07", {})


class OracleViolated(Exception):
    pass


@given(c07.fuzz_cases())
def history(case):
    fails = c07.check(case, REC)
    REC.nontrivial.clear()
    REC.samples.clear()
    if fails:
        raise OracleViolated(fails[0].sig)


if __name__ == "__main__":
    atheris.Setup(sys.argv, history.hypothesis.fuzz_one_input)
    atheris.Fuzz()
