"""Hypothesis driving: seeded, database-less, collect-then-continue over root-cause signatures."""
import hypothesis
from hypothesis import HealthCheck, Phase, given, settings, strategies as st  # noqa: F401
from hypothesis.errors import Flaky, FlakyFailure, HypothesisException, Unsatisfiable, FailedHealthCheck
try:
    from hypothesis.errors import FlakyReplay
except ImportError:                                                # pragma: no cover
    FlakyReplay = Flaky

from vlib.runner import HarnessError


class Violation(Exception):
    def __init__(self, failure):
        Exception.__init__(self, failure.sig)
        self.failure = failure


def make_settings(n, shrink=True, stateful_steps=None):
    phases = [Phase.generate]
    if shrink:
        phases.append(Phase.shrink)
    kw = dict(max_examples=max(1, int(n)), database=None, deadline=None, derandomize=False,
              report_multiple_bugs=False, print_blob=False, phases=phases,
              suppress_health_check=[HealthCheck.too_slow, HealthCheck.data_too_large,
                                     HealthCheck.large_base_example],
              verbosity=hypothesis.Verbosity.quiet)
    if stateful_steps is not None:
        kw["stateful_step_count"] = stateful_steps
    return settings(**kw)


def drive(rec, strategy, oracle, n, seed, shrink=True, max_sigs=4, shrink_budget=400):
    """Run oracle(case) -> [Failure] over n generated cases.  The oracle itself calls rec.case().
    A failing case is shrunk, recorded under its signature, that signature is then only counted and the
    search continues (so one shallow defect cannot hide another)."""
    suppressed = set()
    remaining = int(n)
    rounds = 0
    while remaining > 0 and rounds <= max_sigs:
        before = rec.evaluations
        state = {"last": None, "shrinks": 0}

        def body(case):
            if state["last"] is not None:
                # a failure is known and we are shrinking: bound the effort (Hypothesis has no shrink budget of its own)
                state["shrinks"] += 1
                if state["shrinks"] > shrink_budget and case != state["last"].case:
                    return
            fails = rec.triage(oracle(case))
            fresh = []
            for f in fails:
                if f.sig in suppressed:
                    rec.failures[f.sig]["count"] += 1
                else:
                    fresh.append(f)
            if fresh:
                state["last"] = fresh[0]
                raise Violation(fresh[0])

        test = hypothesis.seed(seed + 7919 * rounds)(make_settings(remaining, shrink)(given(strategy)(body)))
        try:
            test()
            return
        except Violation as v:
            f = v.failure
        except (Flaky, FlakyFailure, FlakyReplay):
            f = state["last"]
            if f is None:
                raise HarnessError("hypothesis reported flakiness without a recorded failure")
            rec.notes.append("failure %s did not reproduce deterministically while shrinking" % f.sig)
        except (Unsatisfiable, FailedHealthCheck) as ex:
            raise HarnessError("generator health problem: %r" % (ex,))
        rec.violation(f)
        suppressed.add(f.sig)
        rounds += 1
        remaining -= max(1, rec.evaluations - before)


def drive_machine(rec, machine_cls, n, steps, seed, shrink=True):
    """Run a RuleBasedStateMachine class. The machine reports failures by raising Violation(failure)."""
    from hypothesis.stateful import run_state_machine_as_test
    try:
        run_state_machine_as_test(hypothesis.seed(seed)(machine_cls),
                                  settings=make_settings(n, shrink, stateful_steps=steps))
    except Violation as v:
        rec.violation(v.failure)
    except (Flaky, FlakyFailure, FlakyReplay) as ex:
        last = getattr(machine_cls, "_last_failure", None)
        if last is None:
            raise HarnessError("flaky state machine without recorded failure: %r" % (ex,))
        rec.notes.append("state-machine failure %s did not reproduce deterministically" % last.sig)
        rec.violation(last)
    except (Unsatisfiable, FailedHealthCheck) as ex:
        raise HarnessError("generator health problem: %r" % (ex,))
