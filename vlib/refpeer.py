"""Raw protocol speaker built on vlib.refcodec (imports nothing from rpyc).

RawPeer talks the published wire format over any object with the Stream contract (SimStream under the
kernel, or a socket wrapper).  It is the scripted peer of C13/C14/C15, the hostile peer of C07/C08/C16 and,
with ObjectModel, the reference server / client of C19's conversations.
"""
import struct
import zlib

from vlib import refcodec as rc


class PeerClosed(Exception):
    pass


class RawPeer(object):
    def __init__(self, stream, strict=True):
        self.s = stream
        self.strict = strict
        self.sent = []
        self.received = []
        self.decode_errors = []
        self.next_seq = 10 ** 6     # our own requests use high sequence numbers to stay recognisable

    # -- frames
    def send_raw_frame(self, payload, compress_level=None):
        self.s.write(rc.frame(payload, compress_level))

    def send_bytes(self, data):
        self.s.write(data)

    def send_msg(self, kind, seq, args, compress_level=None):
        self.sent.append((kind, seq, args))
        self.send_raw_frame(rc.dump((kind, seq, args)), compress_level)

    def recv_frame(self):
        hdr = self.s.read(5)
        n, flag = struct.unpack(">IB", hdr)
        body = self.s.read(n + 1)
        if body[-1:] != b"\n":
            self.decode_errors.append("frame not terminated by newline")
        body = body[:-1]
        if flag not in (0, 1):
            self.decode_errors.append("compression flag %d" % flag)
        if flag:
            body = zlib.decompress(body)
        elif self.strict and n > rc.COMPRESSION_THRESHOLD and getattr(self, "expect_compression", False):
            self.decode_errors.append("packet of %d bytes sent uncompressed" % n)
        return body

    def recv_msg(self):
        body = self.recv_frame()
        try:
            msg = rc.load(body, strict_shortest=self.strict)
        except rc.RefDecodeError as ex:
            self.decode_errors.append("brine: %s" % ex)
            msg = rc.load(body, strict_shortest=False)
        if type(msg) is not tuple or len(msg) != 3:
            self.decode_errors.append("message is not a triple: %r" % (msg,))
            raise PeerClosed("undecodable message")
        self.received.append(msg)
        return msg

    def poll(self, timeout):
        return self.s.poll(timeout)

    def close(self):
        self.s.close()

    # -- canonical messages
    def request(self, handler, boxed_args, seq=None):
        if seq is None:
            seq = self.next_seq
            self.next_seq += 1
        self.send_msg(rc.MSG_REQUEST, seq, (handler, boxed_args))
        return seq

    def reply(self, seq, boxed):
        self.send_msg(rc.MSG_REPLY, seq, boxed)

    def exception(self, seq, record):
        self.send_msg(rc.MSG_EXCEPTION, seq, record)


def box_value(v):
    return (rc.LABEL_VALUE, v)


def box_tuple(items):
    return (rc.LABEL_TUPLE, tuple(items))


def box_remote_ref(id_pack):
    """a reference to an object living on the sender's side"""
    return (rc.LABEL_REMOTE_REF, id_pack)


def box_local_ref(id_pack):
    """a reference to an object living on the receiver's side, handed back"""
    return (rc.LABEL_LOCAL_REF, id_pack)


def exc_record(module, name, args=(), attrs=(), tb="<reference peer>"):
    return ((module, name), tuple(args), tuple(attrs), tb)
