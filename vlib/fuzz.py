"""Coverage-guided campaigns (atheris / libFuzzer) with the oracle inside the target.

run_campaign() launches the fuzz target in a subprocess (libFuzzer owns the process), with a fresh corpus
directory, -runs=N and -seed derived from VERIF_SEED.  A crash file is turned back into a case and re-judged
by the caller's oracle in this process, so a finding is always re-confirmed without the fuzzer.
"""
import glob
import os
import shutil
import subprocess
import sys
import tempfile

from vlib.runner import HOME, REPO

TARGETS = {"brine_load": "vlib.fuzz_brine", "c07_history": "vlib.fuzz_c07"}
MAX_LEN = {"brine_load": 512, "c07_history": 8192}


def atheris_available():
    env = dict(os.environ, PYTHONPATH=os.pathsep.join([REPO, HOME, os.path.join(HOME, ".deps")]))
    r = subprocess.run([sys.executable, "-c", "import atheris"], env=env, stdout=subprocess.DEVNULL, stderr=subprocess.DEVNULL)
    return r.returncode == 0


def run_campaign(rec, target, runs, seed, corpus_kind, rejudge):
    if not atheris_available():
        rec.notes.append("atheris not importable: campaign %s/%s skipped" % (target, corpus_kind))
        rec.count("atheris campaigns skipped")
        return
    work = tempfile.mkdtemp(prefix="verif_fuzz_")
    try:
        corpus = os.path.join(work, "corpus")
        crashes = os.path.join(work, "crashes")
        os.makedirs(corpus)
        os.makedirs(crashes)
        if corpus_kind == "seeded":
            from vlib import refcodec, vals
            seeds = [0, -49, 160, 10 ** 30, 1.5, complex(1, 2), b"", b"abcde", b"x" * 300, "", "héllo", (), (1, (2, (3,))), (1,) * 6,
                     frozenset([1, "a"]), slice(1, None, 2), None, True, NotImplemented, Ellipsis, ("RPYC", "QUERY", ("name",))]
            for i, v in enumerate(seeds):
                with open(os.path.join(corpus, "seed%02d" % i), "wb") as f:
                    f.write(refcodec.dump(v))
        elif corpus_kind == "random":
            # Hypothesis's byte-string front end needs inputs long enough to decode into a history: start from random blobs
            import hashlib
            for i in range(8):
                with open(os.path.join(corpus, "seed%02d" % i), "wb") as f:
                    f.write(hashlib.shake_256(b"%d/%d" % (seed, i)).digest(3000))
        env = dict(os.environ, PYTHONPATH=os.pathsep.join([REPO, HOME, os.path.join(HOME, ".deps")]), PYTHONHASHSEED="0")
        cmd = [sys.executable, "-m", TARGETS[target], corpus, "-runs=%d" % runs, "-seed=%d" % (seed % (2 ** 31 - 1) + 1),
               "-max_len=%d" % MAX_LEN[target], "-artifact_prefix=%s/" % crashes, "-print_final_stats=1", "-verbosity=0"]
        r = subprocess.run(cmd, env=env, stdout=subprocess.PIPE, stderr=subprocess.STDOUT, timeout=3600)
        out = r.stdout.decode("utf8", "replace")
        execs = 0
        for ln in out.splitlines():
            if "stat::number_of_executed_units" in ln:
                execs = int(ln.split(":")[-1])
        rec.count("atheris executions (%s corpus)" % corpus_kind, execs)
        rec.count("atheris corpus files at end (%s corpus)" % corpus_kind, len(os.listdir(corpus)))
        found = sorted(glob.glob(os.path.join(crashes, "crash-*")) + glob.glob(os.path.join(crashes, "timeout-*")))
        for path in found[:5]:
            with open(path, "rb") as f:
                data = f.read()
            fails = rejudge(data)
            for fl in rec.triage(fails):
                rec.violation(fl)
            if not fails:
                rec.notes.append("fuzzer artifact %s did not reproduce under the oracle (%d bytes)" % (os.path.basename(path), len(data)))
        if r.returncode != 0 and not found:
            rec.notes.append("fuzz target exited %d without artifact: %s" % (r.returncode, out[-300:]))
    finally:
        shutil.rmtree(work, ignore_errors=True)
