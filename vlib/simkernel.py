"""simkernel - deterministic cooperative scheduler over real threads, virtual clock, in-memory transport.

Exactly one task runs at a time.  A task gives up control only at yield points: blocking operations of
the simulated primitives (SimLock / SimCondition / SimStream / virtual sleep / join) and, optionally,
every executed source line of selected files (sys.settrace).  At every point where more than one task
could continue, a *chooser* decides; the chooser is fed by generated data, so an interleaving is a value.
Virtual time advances only when no task is runnable.  No runnable task, no pending deadline and an
unfinished non-daemon task = deadlock (reported with each task's blocking site).
"""
import contextlib
import faulthandler
import gc
import os
import sys
import threading
import time as _real_time
import traceback

EPOCH = 1000000000.0
NEW, READY, RUNNING, BLOCKED, DONE = "new", "ready", "running", "blocked", "done"

CURRENT = None     # the installed kernel


class KernelAbort(BaseException):
    """raised inside tasks when the kernel tears a case down"""


class KernelStuck(Exception):
    """harness-level: the kernel itself made no progress in real time"""


class Task(object):
    def __init__(self, kernel, tid, fn, args, name, daemon, trace):
        self.kernel = kernel
        self.id = tid
        self.fn = fn
        self.args = args
        self.name = name or "task%d" % tid
        self.daemon = daemon
        self.trace = trace
        self.state = NEW
        self.gate = threading.Semaphore(0)
        self.pred = None
        self.deadline = None
        self.site = None
        self.exc = None
        self.exc_tb = None
        self.result = None
        self.thread = threading.Thread(target=self._boot, name="sim-" + self.name)
        self.thread.daemon = True

    def runnable(self, now):
        if self.state == READY:
            return True
        if self.state == BLOCKED:
            if self.deadline is not None and self.deadline <= now:
                return True
            try:
                return bool(self.pred())
            except Exception:
                return True
        return False

    def _boot(self):
        k = self.kernel
        self.gate.acquire()
        if k.aborting:
            self.state = DONE
            return
        if self.trace and k.trace_files:
            sys.settrace(k._tracer)
        try:
            self.result = self.fn(*self.args)
        except KernelAbort:
            pass
        except BaseException as ex:
            self.exc = ex
            self.exc_tb = traceback.format_exc()
        finally:
            sys.settrace(None)
            self.state = DONE
            if not k.aborting:
                k._reschedule(self)

    # thread-like API (what rpyc.lib.spawn returns)
    def join(self, timeout=None):
        k = self.kernel
        if self.state == DONE:
            return
        deadline = None if timeout is None else k.now + max(0, timeout)
        k.block(lambda: self.state == DONE, deadline, ("join", self.name))

    def is_alive(self):
        return self.state != DONE

    isAlive = is_alive

    def setName(self, name):
        self.name = name


class SequentialChooser(object):
    """never preempt; when the running task blocks, continue with the lowest-numbered runnable task"""
    bound = 0

    def pick(self, n, preemptive, kernel):
        return 0


class ListChooser(object):
    """Schedule = (preempt_at, np_choices).
    preempt_at: list of [k, target]: at the k-th *preemptive* decision point (counted over the whole run,
    only points where another task is runnable count) switch to option 1 + target % (n-1).
    np_choices: consumed in order whenever the running task blocks/finishes and >= 2 tasks are runnable."""

    def __init__(self, preempt_at=(), np_choices=()):
        self.preempt = {}
        for k, target in preempt_at:
            self.preempt.setdefault(int(k), int(target))
        self.bound = len(self.preempt)
        self.np = list(np_choices)
        self.np_i = 0
        self.pcount = 0
        self.taken = []        # preemptions actually taken: (decision index, site)
        self.np_taken = 0

    def pick(self, n, preemptive, kernel):
        if preemptive:
            k = self.pcount
            self.pcount += 1
            if k in self.preempt:
                self.taken.append((k, kernel.last_tag))
                return 1 + self.preempt[k] % (n - 1)
            return 0
        c = self.np[self.np_i] if self.np_i < len(self.np) else 0
        self.np_i += 1
        if c % n:
            self.np_taken += 1
        return c % n


class TrailChooser(object):
    """Stateless-DFS chooser: replays a prefix of choices, then takes option 0, recording the branching
    factor at every decision so the caller can backtrack.  Preemptive switches are limited by `bound`."""

    def __init__(self, prefix=(), bound=None):
        self.prefix = list(prefix)
        self.trail = []           # [choice, n]
        self.bound = bound
        self.preemptions = 0

    def pick(self, n, preemptive, kernel):
        if preemptive and self.bound is not None and self.preemptions >= self.bound:
            return 0
        i = len(self.trail)
        c = self.prefix[i] if i < len(self.prefix) else 0
        if c >= n:
            c = n - 1
        self.trail.append([c, n])
        if preemptive and c:
            self.preemptions += 1
        return c

    def next_prefix(self, floor=0):
        """the next unexplored choice sequence in DFS order (None when exhausted); positions < floor are fixed"""
        t = self.trail
        i = len(t) - 1
        while i >= floor:
            if t[i][0] + 1 < t[i][1]:
                return [c for c, _ in t[:i]] + [t[i][0] + 1]
            i -= 1
        return None


class Kernel(object):
    def __init__(self, chooser=None, trace_files=(), trace_funcs=None, max_time=100000.0, max_steps=2000000,
                 watchdog=60.0):
        self.chooser = chooser or SequentialChooser()
        self.trace_files = set(os.path.realpath(f) for f in trace_files)
        self.trace_funcs = set(trace_funcs) if trace_funcs else None
        self.tasks = []
        self.current = None
        self.now = 0.0
        self.aborting = False
        self.deadlock = None
        self.horizon_hit = False
        self.max_time = max_time
        self.max_steps = max_steps
        self.steps = 0
        self.switches = 0
        self.decisions = 0
        self.last_tag = None
        self.watchdog = watchdog
        self._main_gate = threading.Semaphore(0)
        self.preempt_enabled = True
        self.log = None
        self.time_jumps = []
        self.on_time_advance = None
        self._spin = 0
        self._spin_key = None
        self.spin_limit = 20000

    # ---- task management -----------------------------------------------------------------------------
    def spawn(self, fn, *args, **kw):
        name = kw.pop("name", None)
        daemon = kw.pop("daemon", False)
        trace = kw.pop("trace", True)
        t = Task(self, len(self.tasks), fn, args, name, daemon, trace)
        self.tasks.append(t)
        t.state = READY
        t.thread.start()
        return t

    def _rpyc_spawn(self, *args, **kwargs):
        """replacement for rpyc.lib.spawn"""
        fn, args = args[0], args[1:]
        if kwargs:
            return self.spawn(lambda: fn(*args, **kwargs), name="spawned", daemon=True)
        return self.spawn(fn, *args, name="spawned", daemon=True)

    def me(self):
        cur = self.current
        if cur is not None and cur.thread.ident == threading.get_ident():
            return cur
        return None

    # ---- scheduling ----------------------------------------------------------------------------------
    def _choose_next(self, me):
        while True:
            now = self.now
            runnable = [t for t in self.tasks if t.runnable(now)]
            if runnable:
                me_ready = me is not None and me.state == READY
                if me_ready:
                    options = [me] + [t for t in runnable if t is not me]
                else:
                    options = runnable
                if len(options) == 1:
                    idx = 0
                else:
                    self.decisions += 1
                    idx = self.chooser.pick(len(options), me_ready, self)
                chosen = options[idx]
                if self.log is not None:
                    self.log.append(("run", chosen.name, self.last_tag))
                return chosen
            deadlines = [t.deadline for t in self.tasks if t.state == BLOCKED and t.deadline is not None]
            if deadlines:
                d = min(deadlines)
                if d <= self.max_time:
                    if d > self.now:
                        self.time_jumps.append((self.now, d))
                        if self.on_time_advance is not None:
                            self.on_time_advance(self, self.now, d)
                        self.now = d
                    continue
                self.horizon_hit = True
            stuck = [t for t in self.tasks if t.state == BLOCKED and not t.daemon]
            if stuck:
                self.deadlock = [(t.name, repr(t.site)) for t in self.tasks if t.state == BLOCKED]
            return None

    def _reschedule(self, me):
        self.steps += 1
        # livelock detector: the same task keeps yielding without blocking while virtual time stands still
        if me is not None and me.state == READY and self._spin_key == (me.id, self.now):
            self._spin += 1
        else:
            self._spin = 0
            self._spin_key = (me.id if me is not None else None, self.now)
        if self.steps > self.max_steps or self._spin > self.spin_limit:
            why = "step-limit" if self.steps > self.max_steps else "livelock"
            self.deadlock = [(why, "%s spins at virtual time %r (last yield %r)" % (me.name if me else None, self.now, self.last_tag))]
            nxt = None
        else:
            nxt = self._choose_next(me)
        if nxt is me and me is not None:
            me.state = RUNNING
            return
        self.switches += 1
        self.current = nxt
        if nxt is None:
            self._main_gate.release()
        else:
            nxt.state = RUNNING
            nxt.gate.release()
        if me is not None and me.state != DONE:
            me.gate.acquire()
            if self.aborting:
                raise KernelAbort()

    def run(self):
        """run until every non-daemon task is finished, or nothing can make progress (see .deadlock)"""
        if self.current is not None:
            raise KernelStuck("run() re-entered")
        self.deadlock = None
        nxt = self._choose_next(None)
        if nxt is None:
            return self
        self.current = nxt
        nxt.state = RUNNING
        nxt.gate.release()
        if not self._main_gate.acquire(timeout=self.watchdog):
            sys.stderr.write("simkernel watchdog: no progress for %.0fs real time\n" % self.watchdog)
            faulthandler.dump_traceback(file=sys.stderr)
            self.shutdown(hard=True)
            raise KernelStuck("kernel watchdog expired")
        return self

    def yield_point(self, tag=None):
        """preemptive yield: others may run"""
        me = self.me()
        if me is None or self.aborting:
            return
        self.last_tag = tag
        me.state = READY
        self._reschedule(me)

    def block(self, pred, deadline, site):
        """block the calling task until pred() or the virtual deadline; returns pred() afterwards"""
        if self.aborting:
            raise KernelAbort()
        me = self.me()
        if me is None:
            if pred():
                return True
            raise KernelStuck("blocking operation %r outside a kernel task" % (site,))
        me.pred = pred
        me.deadline = deadline
        me.site = site
        me.state = BLOCKED
        self.last_tag = site
        self._reschedule(me)
        me.pred = None
        me.deadline = None
        me.site = None
        return bool(pred())

    def sleep(self, dt):
        if dt is None or dt <= 0:
            self.yield_point(("sleep0",))
            return
        self.block(lambda: False, self.now + dt, ("sleep", dt))

    def time(self):
        return EPOCH + self.now

    def shutdown(self, hard=False):
        """abort whatever is still blocked and join every thread"""
        self.aborting = True
        for t in self.tasks:
            if t.state != DONE:
                t.gate.release()
        for t in self.tasks:
            t.thread.join(None if not hard else 0.1) if hard else t.thread.join(20.0)
            if t.thread.is_alive() and not hard:
                faulthandler.dump_traceback(file=sys.stderr)
                raise KernelStuck("task %s did not terminate on shutdown" % t.name)
        self.current = None

    # ---- line-level preemption -------------------------------------------------------------------------
    def _tracer(self, frame, event, arg):
        code = frame.f_code
        if code.co_filename in self.trace_files:
            if self.trace_funcs is None or code.co_name in self.trace_funcs:
                return self._line_tracer
        return None

    def _line_tracer(self, frame, event, arg):
        if event == "line" and self.preempt_enabled and not self.aborting:
            self.yield_point(("line", frame.f_code.co_name, frame.f_lineno))
        return self._line_tracer

    # ---- installation ----------------------------------------------------------------------------------
    @contextlib.contextmanager
    def installed(self):
        """patch rpyc's module globals so that connections created inside use simulated primitives"""
        global CURRENT
        import rpyc.lib
        import rpyc.core.protocol as protocol
        import rpyc.utils.helpers as helpers
        import rpyc.core.async_ as async_
        import rpyc.lib.colls as colls
        if CURRENT is not None:
            raise KernelStuck("nested kernels")
        simtime = SimTimeModule(self)
        saved = [(protocol, "Lock", protocol.Lock), (protocol, "Condition", protocol.Condition),
                 (protocol, "spawn", protocol.spawn), (protocol, "time", protocol.time),
                 (rpyc.lib, "time", rpyc.lib.time), (helpers, "time", helpers.time),
                 (helpers, "spawn", helpers.spawn), (async_, "time", async_.time), (colls, "Lock", colls.Lock)]
        gc_was = gc.isenabled()
        gc.disable()
        CURRENT = self
        protocol.Lock = SimLock
        protocol.Condition = SimCondition
        colls.Lock = SimLock
        protocol.spawn = self._rpyc_spawn
        helpers.spawn = self._rpyc_spawn
        protocol.time = simtime
        rpyc.lib.time = simtime
        helpers.time = simtime
        async_.time = simtime
        try:
            yield self
        finally:
            try:
                self.shutdown()
            finally:
                for mod, name, val in saved:
                    setattr(mod, name, val)
                CURRENT = None
                if gc_was:
                    gc.enable()


class SimTimeModule(object):
    def __init__(self, kernel):
        self._k = kernel

    def time(self):
        return self._k.time()

    monotonic = time

    def sleep(self, dt):
        self._k.sleep(dt)

    def __getattr__(self, name):
        return getattr(_real_time, name)


# ---- simulated synchronisation primitives ---------------------------------------------------------------
class SimLock(object):
    """threading.Lock look-alike (non-reentrant)"""

    def __init__(self):
        self._k = CURRENT
        self._locked = False
        self.owner = None

    def acquire(self, blocking=True, timeout=-1):
        k = self._k
        if self._locked:
            if not blocking:
                return False
            deadline = None if (timeout is None or timeout < 0) else k.now + timeout
            while self._locked:
                if not k.block(lambda: not self._locked, deadline, ("lock.acquire", id(self))):
                    return False
        self._locked = True
        self.owner = k.current
        return True

    def release(self):
        if not self._locked:
            raise RuntimeError("release unlocked lock")
        self._locked = False
        self.owner = None

    def locked(self):
        return self._locked

    def __enter__(self):
        self.acquire()
        return self

    def __exit__(self, *exc):
        self.release()


class SimRLock(object):
    def __init__(self):
        self._k = CURRENT
        self.owner = None
        self.count = 0

    def acquire(self, blocking=True, timeout=-1):
        k = self._k
        me = k.me() or "external"
        if self.owner is me:
            self.count += 1
            return True
        if self.owner is not None:
            if not blocking:
                return False
            deadline = None if (timeout is None or timeout < 0) else k.now + timeout
            while self.owner is not None:
                if not k.block(lambda: self.owner is None, deadline, ("rlock.acquire", id(self))):
                    return False
        self.owner = me
        self.count = 1
        return True

    def release(self):
        k = self._k
        me = k.me() or "external"
        if self.owner is not me and not k.aborting:
            raise RuntimeError("cannot release un-acquired lock")
        self.count -= 1
        if self.count <= 0:
            self.owner = None
            self.count = 0

    def _is_owned(self):
        return self.owner is (self._k.me() or "external")

    def _release_save(self):
        st = (self.owner, self.count)
        self.owner = None
        self.count = 0
        return st

    def _acquire_restore(self, st):
        k = self._k
        while self.owner is not None:
            k.block(lambda: self.owner is None, None, ("rlock.reacquire", id(self)))
        self.owner, self.count = st

    def __enter__(self):
        self.acquire()
        return self

    def __exit__(self, *exc):
        self.release()


class SimCondition(object):
    """threading.Condition look-alike (default lock is re-entrant, as in the stdlib)"""

    def __init__(self, lock=None):
        self._k = CURRENT
        self._lock = lock if lock is not None else SimRLock()
        self._waiters = []
        self.acquire = self._lock.acquire
        self.release = self._lock.release
        self.n_waits = 0
        self.n_notified = 0

    def __enter__(self):
        return self._lock.__enter__()

    def __exit__(self, *a):
        return self._lock.__exit__(*a)

    def _owned(self):
        if hasattr(self._lock, "_is_owned"):
            return self._lock._is_owned()
        return self._lock.locked()

    def wait(self, timeout=None):
        k = self._k
        if not self._owned():
            raise RuntimeError("cannot wait on un-acquired lock")
        token = [False]
        self._waiters.append(token)
        self.n_waits += 1
        if hasattr(self._lock, "_release_save"):
            st = self._lock._release_save()
        else:
            st = None
            self._lock.release()
        deadline = None if timeout is None else k.now + max(0, timeout)
        try:
            if timeout is not None and timeout <= 0 and not token[0]:
                k.yield_point(("cond.wait0",))
            else:
                k.block(lambda: token[0], deadline, ("cond.wait", id(self)))
        finally:
            if not token[0]:
                # identity, not equality: tokens are lists and [False] == [False]
                self._waiters[:] = [t for t in self._waiters if t is not token]
            if not k.aborting:
                if st is not None:
                    self._lock._acquire_restore(st)
                else:
                    self._lock.acquire()
        return token[0]

    def wait_for(self, predicate, timeout=None):
        endtime = None
        waittime = timeout
        result = predicate()
        while not result:
            if waittime is not None:
                if endtime is None:
                    endtime = self._k.now + waittime
                else:
                    waittime = endtime - self._k.now
                    if waittime <= 0:
                        break
            self.wait(waittime)
            result = predicate()
        return result

    def notify(self, n=1):
        if not self._owned():
            raise RuntimeError("cannot notify on un-acquired lock")
        for token in self._waiters[:n]:
            token[0] = True
            self.n_notified += 1
        del self._waiters[:n]

    def notify_all(self):
        self.notify(len(self._waiters))

    notifyAll = notify_all


# ---- in-memory transport ----------------------------------------------------------------------------------
class SimStream(object):
    """implements the rpyc Stream contract on an in-memory duplex link"""
    MAX_IO_CHUNK = 64000

    def __init__(self, kernel, link, name):
        self.k = kernel
        self.link = link
        self.name = name
        self.peer = None
        self.inbox = bytearray()
        self.held = bytearray()
        self.hold = False
        self.eof_in = False
        self._closed = False
        self.nread = 0
        self.nwritten = 0
        self.in_total = 0
        self.in_cut = None          # absolute offset of the incoming byte stream at which it ends
        self.out_cut = None         # absolute offset of the outgoing byte stream at which writing fails
        self.poll_fail_at = None    # 1-based index of the poll() call that fails
        self.npolls = 0
        self.ops = []               # (kind, size) of every operation, for fault enumeration
        self.record_ops = False
        self.strict_epipe = True
        self.fault_fired = None
        self.on_write = None
        self.yield_on_write = False

    # -- contract
    @property
    def closed(self):
        return self._closed

    def close(self):
        if self._closed:
            return
        self._closed = True
        if self.peer is not None:
            self.peer.eof_in = True

    def fileno(self):
        if self._closed:
            raise EOFError("stream has been closed")
        return 1000 + id(self) % 1000

    def _eof_visible(self):
        return self.eof_in and not self.held

    def poll(self, timeout):
        if self._closed:
            raise EOFError("stream has been closed")
        self.npolls += 1
        if self.record_ops:
            self.ops.append(("poll", 0))
        if self.poll_fail_at is not None and self.npolls == self.poll_fail_at:
            self.fault_fired = ("poll", self.npolls)
            self.close()
            raise EOFError("simulated poll failure")
        if not (self.inbox or self._eof_visible()):
            from rpyc.lib import Timeout
            t = Timeout(timeout)
            deadline = (t.tmax - EPOCH) if t.finite else None
            if deadline is not None and deadline <= self.k.now:
                self.k.yield_point(("poll0", self.name))
            else:
                self.k.block(lambda: bool(self.inbox) or self._eof_visible() or self._closed, deadline,
                             ("poll", self.name))
            if self._closed:
                raise EOFError("stream has been closed")
        return bool(self.inbox) or self._eof_visible()

    def read(self, count):
        if self._closed:
            raise EOFError("stream has been closed")
        if self.record_ops:
            self.ops.append(("read", count))
        while len(self.inbox) < count:
            if self._eof_visible():
                self.fault_fired = self.fault_fired or ("eof", self.nread + len(self.inbox))
                self.close()
                raise EOFError("connection closed by peer")
            self.k.block(lambda: len(self.inbox) >= count or self._eof_visible() or self._closed, None,
                         ("read", self.name, count))
            if self._closed:
                raise EOFError("stream has been closed")
        data = bytes(self.inbox[:count])
        del self.inbox[:count]
        self.nread += count
        return data

    def write(self, data):
        if self._closed:
            raise EOFError("stream has been closed")
        if self.k.aborting:
            return                      # teardown: writes never block, so they are simply dropped
        if self.yield_on_write:
            self.k.yield_point(("write", self.name))
            if self._closed:
                raise EOFError("stream has been closed")
        n = len(data)
        if self.record_ops:
            self.ops.append(("write", n))
        if self.on_write is not None:
            self.on_write(self, data)
        if self.out_cut is not None and self.nwritten + n > self.out_cut:
            part = data[:max(0, self.out_cut - self.nwritten)]
            self._emit(part)
            self.fault_fired = ("write", self.out_cut)
            self.close()
            raise EOFError("simulated write failure")
        if self.peer._closed and self.strict_epipe:
            self.fault_fired = self.fault_fired or ("epipe", self.nwritten)
            self.close()
            raise EOFError("broken pipe")
        self._emit(data)

    def _emit(self, data):
        self.nwritten += len(data)
        self.link.wire[self.name] += data
        peer = self.peer
        if peer._closed:
            return
        if peer.in_cut is not None:
            room = peer.in_cut - peer.in_total
            if room <= len(data):
                data = data[:max(0, room)]
                peer.eof_in = True
        if peer.eof_in and peer.in_cut is not None and peer.in_total >= peer.in_cut:
            return
        peer.in_total += len(data)
        if peer.hold:
            peer.held += data
        else:
            peer.inbox += data

    # -- held mode
    def release_packet(self):
        """make the next whole held packet visible to the reader; False if none is complete"""
        h = self.held
        if len(h) < 5:
            return False
        n = int.from_bytes(h[:4], "big")
        total = 5 + n + 1
        if len(h) < total:
            return False
        self.inbox += h[:total]
        del h[:total]
        return True

    def release_all(self):
        self.inbox += self.held
        del self.held[:]


class Link(object):
    def __init__(self, kernel, hold_a=False, hold_b=False):
        self.k = kernel
        self.wire = {"A": bytearray(), "B": bytearray()}     # everything written BY that side
        self.a = SimStream(kernel, self, "A")
        self.b = SimStream(kernel, self, "B")
        self.a.peer = self.b
        self.b.peer = self.a
        self.a.hold = hold_a
        self.b.hold = hold_b


def connect_pair(kernel, service_a, service_b, config_a=None, config_b=None, compress=True, link=None):
    """two real Connections over the real Channel over a simulated link; returns (conn_a, conn_b, link)"""
    from rpyc.core.channel import Channel
    link = link or Link(kernel)

    def mk(svc, stream, cfg):
        if isinstance(svc, type):
            svc = svc()
        return svc._connect(Channel(stream, compress), cfg or {})
    ca = mk(service_a, link.a, config_a)
    cb = mk(service_b, link.b, config_b)
    return ca, cb, link


def run_case(fn, chooser=None, **kw):
    """convenience: run fn(kernel) as the driver task inside a fresh installed kernel; returns (kernel, task)"""
    k = Kernel(chooser, **kw)
    with k.installed():
        t = k.spawn(fn, k, name="driver")
        k.run()
    return k, t
