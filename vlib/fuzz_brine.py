"""atheris target: brine.load with C04's decode oracle inside (a violated oracle raises -> libFuzzer saves the input)."""
import sys

import atheris

with atheris.instrument_imports(include=["rpyc.core.brine"]):
    from rpyc.core import brine       # noqa: F401

from vlib.runner import Recorder      # noqa: E402
from props import c04                 # noqa: E402

REC = Recorder("C04", {})


class OracleViolated(Exception):
    pass


def one_input(data):
    fails = c04.check_decode(bytes(data), REC, "atheris")
    REC.nontrivial.clear()
    REC.samples.clear()
    if fails:
        raise OracleViolated(fails[0].sig)


if __name__ == "__main__":
    atheris.Setup(sys.argv, one_input)
    atheris.Fuzz()
