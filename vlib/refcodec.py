"""Independent reference implementation of the published RPyC 5.x wire format.

Imports nothing from rpyc.  Every number below is a literal transcribed from the published format
(brine tag table, frame layout, message / label / handler numbers of the 5.0.x release).
"""
import struct
import zlib

# ---- brine tag table (literals) -------------------------------------------------------------------
T_NONE, T_EMPTY_STR, T_EMPTY_TUPLE, T_TRUE, T_FALSE, T_NOTIMPL, T_ELLIPSIS = 0x00, 0x01, 0x02, 0x03, 0x04, 0x05, 0x06
T_UNICODE = 0x08
T_STR1, T_STR2, T_STR3, T_STR4, T_STR_L1, T_STR_L4 = 0x0a, 0x0b, 0x0c, 0x0d, 0x0e, 0x0f
T_TUP1, T_TUP2, T_TUP3, T_TUP4, T_TUP_L1, T_TUP_L4 = 0x10, 0x11, 0x12, 0x13, 0x14, 0x15
T_INT_L1, T_INT_L4 = 0x16, 0x17
T_FLOAT, T_SLICE, T_FSET, T_COMPLEX = 0x18, 0x19, 0x1a, 0x1b
IMM_LO, IMM_HI, IMM_BASE = -0x30, 0xa0, 0x50      # ints in [IMM_LO, IMM_HI) are one byte: value + 0x50

# ---- protocol numbers (literals) ------------------------------------------------------------------
MSG_REQUEST, MSG_REPLY, MSG_EXCEPTION = 1, 2, 3
LABEL_VALUE, LABEL_TUPLE, LABEL_LOCAL_REF, LABEL_REMOTE_REF = 1, 2, 3, 4
HANDLERS = dict(PING=1, CLOSE=2, GETROOT=3, GETATTR=4, DELATTR=5, SETATTR=6, CALL=7, CALLATTR=8, REPR=9, STR=10,
                CMP=11, HASH=12, DIR=13, PICKLE=14, DEL=15, INSPECT=16, BUFFITER=17, OLDSLICING=18, CTXEXIT=19,
                INSTANCECHECK=20)
EXC_STOP_ITERATION = 1
STREAM_CHUNK = 64000
COMPRESSION_THRESHOLD = 3000


class RefDecodeError(Exception):
    pass


# ---- encoder (shortest form) ----------------------------------------------------------------------
def dump(v):
    out = []
    _enc(v, out)
    return b"".join(out)


def _enc_bytes(b, out):
    n = len(b)
    if n == 0:
        out.append(bytes([T_EMPTY_STR]))
    elif n <= 4:
        out.append(bytes([T_STR1 + n - 1]) + b)
    elif n <= 255:
        out.append(bytes([T_STR_L1, n]) + b)
    else:
        out.append(bytes([T_STR_L4]) + struct.pack(">I", n) + b)


def _enc(v, out):
    t = type(v)
    if v is None:
        out.append(b"\x00")
    elif v is NotImplemented:
        out.append(b"\x05")
    elif v is Ellipsis:
        out.append(b"\x06")
    elif t is bool:
        out.append(b"\x03" if v else b"\x04")
    elif t is int:
        if IMM_LO <= v < IMM_HI:
            out.append(bytes([v + IMM_BASE]))
        else:
            digits = str(v).encode("ascii")
            if len(digits) <= 255:
                out.append(bytes([T_INT_L1, len(digits)]) + digits)
            else:
                out.append(bytes([T_INT_L4]) + struct.pack(">I", len(digits)) + digits)
    elif t is float:
        out.append(bytes([T_FLOAT]) + struct.pack(">d", v))
    elif t is complex:
        out.append(bytes([T_COMPLEX]) + struct.pack(">d", v.real) + struct.pack(">d", v.imag))
    elif t is bytes:
        _enc_bytes(v, out)
    elif t is str:
        out.append(bytes([T_UNICODE]))
        _enc_bytes(v.encode("utf-8", "surrogatepass"), out)
    elif t is tuple:
        n = len(v)
        if n == 0:
            out.append(bytes([T_EMPTY_TUPLE]))
        elif n <= 4:
            out.append(bytes([T_TUP1 + n - 1]))
        elif n <= 255:
            out.append(bytes([T_TUP_L1, n]))
        else:
            out.append(bytes([T_TUP_L4]) + struct.pack(">I", n))
        for x in v:
            _enc(x, out)
    elif t is slice:
        out.append(bytes([T_SLICE]))
        _enc((v.start, v.stop, v.step), out)
    elif t is frozenset:
        out.append(bytes([T_FSET]))
        _enc(tuple(v), out)
    else:
        raise TypeError("reference codec: not a wire value: %r" % (t,))


# ---- strict decoder -------------------------------------------------------------------------------
class _Reader(object):
    def __init__(self, data):
        self.d = data
        self.p = 0

    def take(self, n):
        if self.p + n > len(self.d):
            raise RefDecodeError("truncated at %d (+%d of %d)" % (self.p, n, len(self.d)))
        b = self.d[self.p:self.p + n]
        self.p += n
        return b


def load(data, strict_shortest=True, whole=True):
    """decode; raise RefDecodeError on anything the format does not define (or, when strict_shortest,
    on a longer-than-necessary form)"""
    r = _Reader(data)
    v = _dec(r, strict_shortest)
    if whole and r.p != len(data):
        raise RefDecodeError("trailing bytes: consumed %d of %d" % (r.p, len(data)))
    return v


def _dec_bytes_tag(tag, r, strict):
    if tag == T_EMPTY_STR:
        return b""
    if T_STR1 <= tag <= T_STR4:
        return r.take(tag - T_STR1 + 1)
    if tag == T_STR_L1:
        n = r.take(1)[0]
        if strict and n <= 4:
            raise RefDecodeError("STR_L1 used for length %d" % n)
        return r.take(n)
    if tag == T_STR_L4:
        n = struct.unpack(">I", r.take(4))[0]
        if strict and n <= 255:
            raise RefDecodeError("STR_L4 used for length %d" % n)
        return r.take(n)
    raise RefDecodeError("tag 0x%02x is not a byte string" % tag)


def _dec(r, strict):
    tag = r.take(1)[0]
    if IMM_LO + IMM_BASE <= tag < IMM_HI + IMM_BASE:
        return tag - IMM_BASE
    if tag == T_NONE:
        return None
    if tag == T_TRUE:
        return True
    if tag == T_FALSE:
        return False
    if tag == T_NOTIMPL:
        return NotImplemented
    if tag == T_ELLIPSIS:
        return Ellipsis
    if tag == T_EMPTY_TUPLE:
        return ()
    if tag in (T_EMPTY_STR, T_STR1, T_STR2, T_STR3, T_STR4, T_STR_L1, T_STR_L4):
        return _dec_bytes_tag(tag, r, strict)
    if tag == T_UNICODE:
        inner = r.take(1)[0]
        return _dec_bytes_tag(inner, r, strict).decode("utf-8", "surrogatepass")
    if T_TUP1 <= tag <= T_TUP4:
        return tuple(_dec(r, strict) for _ in range(tag - T_TUP1 + 1))
    if tag == T_TUP_L1:
        n = r.take(1)[0]
        if strict and n <= 4:
            raise RefDecodeError("TUP_L1 used for length %d" % n)
        return tuple(_dec(r, strict) for _ in range(n))
    if tag == T_TUP_L4:
        n = struct.unpack(">I", r.take(4))[0]
        if strict and n <= 255:
            raise RefDecodeError("TUP_L4 used for length %d" % n)
        if n > len(r.d):
            raise RefDecodeError("tuple length %d exceeds input" % n)
        return tuple(_dec(r, strict) for _ in range(n))
    if tag in (T_INT_L1, T_INT_L4):
        if tag == T_INT_L1:
            n = r.take(1)[0]
        else:
            n = struct.unpack(">I", r.take(4))[0]
            if strict and n <= 255:
                raise RefDecodeError("INT_L4 used for %d digits" % n)
        digits = r.take(n)
        txt = digits.decode("ascii")
        body = txt[1:] if txt[:1] == "-" else txt
        if not body.isdigit() or not body.isascii():
            raise RefDecodeError("bad integer text %r" % digits[:20])
        v = int(txt)
        if strict and (IMM_LO <= v < IMM_HI or str(v) != txt):
            raise RefDecodeError("integer %r not in shortest/canonical form" % txt[:20])
        return v
    if tag == T_FLOAT:
        return struct.unpack(">d", r.take(8))[0]
    if tag == T_COMPLEX:
        re_, im = struct.unpack(">d", r.take(8))[0], struct.unpack(">d", r.take(8))[0]
        return complex(re_, im)
    if tag == T_SLICE:
        t = _dec(r, strict)
        if type(t) is not tuple or len(t) != 3:
            raise RefDecodeError("slice body is not a 3-tuple")
        return slice(*t)
    if tag == T_FSET:
        t = _dec(r, strict)
        if type(t) is not tuple:
            raise RefDecodeError("frozenset body is not a tuple")
        return frozenset(t)
    raise RefDecodeError("undefined tag 0x%02x" % tag)


# ---- frames ---------------------------------------------------------------------------------------
def frame(payload, compress_level=None):
    """one packet: 4-byte big-endian length, compression flag byte, body, newline"""
    if compress_level is None:
        body, flag = payload, 0
    else:
        body, flag = zlib.compress(payload, compress_level), 1
    return struct.pack(">I", len(body)) + bytes([flag]) + body + b"\n"


def frame_auto(payload):
    """what a conforming sender with compression enabled emits (zlib only above the threshold)"""
    return frame(payload, 1 if len(payload) > COMPRESSION_THRESHOLD else None)


def parse_frames(wire, strict=True):
    """split a byte stream into (flag, payload, raw_body_len) packets; raise on malformed framing"""
    out = []
    p = 0
    while p < len(wire):
        if p + 5 > len(wire):
            raise RefDecodeError("truncated header at %d" % p)
        n = struct.unpack(">I", wire[p:p + 4])[0]
        flag = wire[p + 4]
        if strict and flag not in (0, 1):
            raise RefDecodeError("compression flag %d" % flag)
        body = wire[p + 5:p + 5 + n]
        if len(body) != n:
            raise RefDecodeError("truncated body at %d" % p)
        if wire[p + 5 + n:p + 6 + n] != b"\n":
            raise RefDecodeError("missing newline after packet at %d" % p)
        payload = zlib.decompress(body) if flag else body
        out.append((flag, payload, n))
        p += 6 + n
    return out


# ---- self test against frozen vectors ---------------------------------------------------------------
FROZEN = [
    # the example from the brine module docstring of the published release
    (("he", 7, "llo", 8, (), 900, None, True, Ellipsis, 18.2, 18.2j + 13, slice(1, 2, 3), NotImplemented),
     None),
    (0, bytes([0x50])), (-0x30, bytes([0x20])), (0x9f, bytes([0xef])), (0xa0, b"\x16\x03160"), (-0x31, b"\x16\x03-49"),
    (None, b"\x00"), (b"", b"\x01"), ((), b"\x02"), (True, b"\x03"), (False, b"\x04"), (NotImplemented, b"\x05"),
    (Ellipsis, b"\x06"), ("", b"\x08\x01"), ("a", b"\x08\x0aa"), (b"abcd", b"\x0dabcd"), (b"abcde", b"\x0e\x05abcde"),
    (b"x" * 256, b"\x0f\x00\x00\x01\x00" + b"x" * 256), ((1,), b"\x10\x51"), ((1, 2, 3, 4), b"\x13\x51\x52\x53\x54"),
    ((1,) * 5, b"\x14\x05" + b"\x51" * 5), (1.0, b"\x18\x3f\xf0\x00\x00\x00\x00\x00\x00"),
    (complex(1.0, -2.0), b"\x1b\x3f\xf0\x00\x00\x00\x00\x00\x00\xc0\x00\x00\x00\x00\x00\x00\x00"),
    (slice(1, 2, 3), b"\x19\x12\x51\x52\x53"), (frozenset([5]), b"\x1a\x10\x55"),
    (900, b"\x16\x03900"), ("€", b"\x08\x0c\xe2\x82\xac"),
    # a lone surrogate (e.g. from os.fsdecode) travels as its 3-byte generalised UTF-8 form (brine as repaired, 23f1552)
    ("\udce9", b"\x08\x0c\xed\xb3\xa9"),
]
DOCSTRING_HEX = ("140e0b686557080c6c6c6f580216033930300003061840323333333333331b402a000000000000403233333333333319125152531a"
                 "1255565705")


def selftest():
    for v, b in FROZEN:
        if b is not None:
            assert dump(v) == b, (v, dump(v), b)
            got = load(b)
            assert type(got) is type(v) and (got == v or v != v), (v, got)
    # docstring vector (frozenset order is implementation defined -> check via decode)
    doc = bytes.fromhex(DOCSTRING_HEX)
    x = load(doc)
    assert x == (b"he", 7, "llo", 8, (), 900, None, True, Ellipsis, 18.2, 18.2j + 13, slice(1, 2, 3),
                 frozenset([5, 6, 7]), NotImplemented), x
    assert frame(b"abc") == b"\x00\x00\x00\x03\x00abc\n"
    assert parse_frames(frame(b"abc") + frame(b"", 1))[0][1] == b"abc"
    return True


if __name__ == "__main__":
    selftest()
    print("refcodec selftest ok")
