"""Two real Connections joined by a simulated link, driven deterministically (sequential mode of simkernel)."""
from vlib import simkernel as sk


class Pair(object):
    """with Pair(svc_a, svc_b, ...) as p:  p.run(driver)  -> driver(p) executes as a kernel task on side A while
    side B (and optionally side A) is served by a daemon task."""

    def __init__(self, service_a, service_b, config_a=None, config_b=None, compress=True, chooser=None,
                 serve_a=False, kernel_kw=None, hold=False, connect_in_tasks=False):
        self.k = sk.Kernel(chooser, **(kernel_kw or {}))
        self._cm = self.k.installed()
        self.args = (service_a, service_b, config_a, config_b, compress)
        self.serve_a = serve_a
        self.hold = hold
        self.connect_in_tasks = connect_in_tasks

    def __enter__(self):
        self._cm.__enter__()
        try:
            sa, sb, ca, cb, compress = self.args
            link = sk.Link(self.k, hold_a=self.hold, hold_b=self.hold)
            if self.connect_in_tasks:
                # services whose on_connect talks to the peer (classic): both ends connect concurrently as tasks
                from rpyc.core.channel import Channel
                made = {}

                def mk(name, svc, stream, cfg):
                    if isinstance(svc, type):
                        svc = svc()
                    made[name] = svc._connect(Channel(stream, compress), cfg or {})
                self.k.spawn(mk, "a", sa, link.a, ca, name="connect-A")
                self.k.spawn(mk, "b", sb, link.b, cb, name="connect-B")
                self.k.run()
                if self.k.deadlock or "a" not in made or "b" not in made:
                    raise sk.KernelStuck("connecting the pair failed: %r" % (self.k.deadlock,))
                self.a, self.b, self.link = made["a"], made["b"], link
            else:
                self.a, self.b, self.link = sk.connect_pair(self.k, sa, sb, ca, cb, compress, link=link)
            if not self.hold:
                self.server_task = self.k.spawn(self._serve, self.b, name="serve-B", daemon=True)
                if self.serve_a:
                    self.k.spawn(self._serve, self.a, name="serve-A", daemon=True)
        except BaseException:
            self._cm.__exit__(None, None, None)
            raise
        return self

    @staticmethod
    def _serve(conn):
        try:
            conn.serve_all()
        except sk.KernelAbort:
            raise
        except Exception:
            pass

    def run(self, fn, *args):
        """run fn(*args) as the driver task; returns the task (inspect .result / .exc / kernel.deadlock)"""
        t = self.k.spawn(fn, *args, name="driver")
        self.k.run()
        return t

    def peer_of(self, conn):
        return self.b if conn is self.a else self.a

    def resolve(self, x):
        """map a netref back to the object it stands for (harness-side peek, no protocol traffic)"""
        seen = 0
        while hasattr(type(x), "____id_pack__") or _is_netref(x):
            conn = object.__getattribute__(x, "____conn__")
            idp = object.__getattribute__(x, "____id_pack__")
            x = self.peer_of(conn)._local_objects[idp]
            seen += 1
            if seen > 8:
                break
        return x

    def __exit__(self, *exc):
        for c in (self.a, self.b):
            try:
                c._closed = True            # no HANDLE_CLOSE traffic during teardown
            except Exception:
                pass
        return self._cm.__exit__(*exc)


def _is_netref(x):
    from rpyc.core.netref import BaseNetref
    return isinstance(type(x), type) and issubclass(type(x), BaseNetref)


def is_netref(x):
    return _is_netref(x)
