"""Runner for every check: tiers, seeds, shards, replay files, known findings, evidence.

Exit codes: 0 = property held on everything explored, 1 = VIOLATION (line printed, replay written),
2 = harness problem / inconclusive (never prints VIOLATION).
"""
import argparse
import collections
import hashlib
import importlib
import json
import multiprocessing
import os
import sys
import time
import traceback

HOME = os.environ.get("VERIF_HOME") or os.path.dirname(os.path.dirname(os.path.abspath(__file__)))
REPO = os.environ.get("VERIF_REPO", "/repo")
LEVELS = ("exploration", "fault_enumeration", "model_checking", "proof", "translation_validation", "other")


class HarnessError(Exception):
    """something is wrong with the harness, not with rpyc: exit 2, never VIOLATION"""


def digest(case):
    blob = json.dumps(case, sort_keys=True, default=repr).encode("utf8", "surrogatepass")
    return hashlib.blake2b(blob, digest_size=8).digest()


class Failure(object):
    __slots__ = ("clause", "key", "case", "observed", "expected")

    def __init__(self, clause, key, case, observed=None, expected=None):
        self.clause = clause
        self.key = str(key)
        self.case = case
        self.observed = observed
        self.expected = expected

    @property
    def sig(self):
        return "%s:%s" % (self.clause, self.key)

    def to_json(self, prop):
        return {"property": prop, "oracle_clause": self.clause, "signature": self.sig, "case": self.case,
                "observed": _jsonable(self.observed), "expected": _jsonable(self.expected)}


def _jsonable(x):
    try:
        json.dumps(x)
        return x
    except Exception:
        return repr(x)


class Recorder(object):
    """per-shard counters; merged by the parent"""
    MAX_SAMPLES = 12

    def __init__(self, prop, known):
        self.prop = prop
        self.known = known              # sig -> what   (status == known only)
        self.evaluations = 0
        self.nontrivial = set()
        self.classes = collections.Counter()
        self.samples = {}               # class -> case
        self.failures = {}              # sig -> dict(failure json + count)
        self.known_hits = collections.Counter()
        self.known_examples = {}
        self.counters = collections.Counter()
        self.notes = []
        self.exhaustive = None

    # -- cases -----------------------------------------------------------------------------------
    def case(self, case, nontrivial, classes=()):
        self.evaluations += 1
        if nontrivial:
            self.nontrivial.add(digest(case))
        for c in classes:
            self.classes[c] += 1
            if c not in self.samples and len(self.samples) < self.MAX_SAMPLES:
                self.samples[c] = case
        if not self.samples:
            self.samples["first"] = case

    def count(self, name, n=1):
        self.counters[name] += n

    # -- failures --------------------------------------------------------------------------------
    def is_known(self, failure):
        return failure.sig in self.known

    def hit_known(self, failure):
        self.known_hits[failure.sig] += 1
        self.known_examples.setdefault(failure.sig, failure.to_json(self.prop))

    def violation(self, failure):
        slot = self.failures.get(failure.sig)
        if slot is None:
            slot = failure.to_json(self.prop)
            slot["count"] = 0
            self.failures[failure.sig] = slot
        else:
            # keep the latest (Hypothesis replays the minimal one last)
            cnt = slot["count"]
            slot.update(failure.to_json(self.prop))
            slot["count"] = cnt
        slot["count"] += 1

    def triage(self, failures):
        """split oracle output into known-finding hits (recorded) and real failures (returned)"""
        bad = []
        for f in failures:
            if self.is_known(f):
                self.hit_known(f)
            else:
                bad.append(f)
        return bad

    # -- transport between processes ---------------------------------------------------------------
    def export(self):
        return dict(evaluations=self.evaluations, nontrivial=self.nontrivial, classes=self.classes,
                    samples=self.samples, failures=self.failures, known_hits=self.known_hits,
                    known_examples=self.known_examples, counters=self.counters, notes=self.notes,
                    exhaustive=self.exhaustive)

    def merge(self, d):
        self.evaluations += d["evaluations"]
        self.nontrivial |= d["nontrivial"]
        self.classes.update(d["classes"])
        for k, v in d["samples"].items():
            if k not in self.samples and len(self.samples) < self.MAX_SAMPLES:
                self.samples[k] = v
        for sig, slot in d["failures"].items():
            mine = self.failures.get(sig)
            if mine is None:
                self.failures[sig] = slot
            else:
                mine["count"] += slot["count"]
                if len(json.dumps(slot["case"], default=repr)) < len(json.dumps(mine["case"], default=repr)):
                    cnt = mine["count"]
                    mine.update(slot)
                    mine["count"] = cnt
        self.known_hits.update(d["known_hits"])
        for k, v in d["known_examples"].items():
            self.known_examples.setdefault(k, v)
        self.counters.update(d["counters"])
        self.notes.extend(d["notes"])
        if d["exhaustive"] is not None:
            self.exhaustive = d["exhaustive"] if self.exhaustive is None else (self.exhaustive and d["exhaustive"])


def load_known(prop):
    path = os.path.join(HOME, "known_findings.json")
    known = {}
    if os.path.exists(path):
        with open(path) as f:
            data = json.load(f)
        for ent in data.get("findings", []):
            if ent.get("property") == prop and ent.get("status") == "known":
                known[ent["signature"]] = ent["what"]
    return known


def _prepare_tree():
    if REPO not in sys.path:
        sys.path.insert(0, REPO)
    import rpyc
    real = os.path.realpath(os.path.dirname(rpyc.__file__))
    want = os.path.realpath(os.path.join(REPO, "rpyc"))
    if real != want:
        raise HarnessError("rpyc imported from %s, expected %s" % (real, want))


def _shard_entry(args):
    modname, desc, seed, prop, known, tier = args
    try:
        try:      # die with the runner (Linux): no orphaned worker may keep pipes or sockets open
            import ctypes
            import signal
            ctypes.CDLL("libc.so.6", use_errno=True).prctl(1, signal.SIGKILL)
        except Exception:
            pass
        _prepare_tree()
        mod = importlib.import_module(modname)
        rec = Recorder(prop, known)
        mod.run_shard(desc, seed, rec, tier)
        return ("ok", rec.export())
    except BaseException:
        return ("err", "shard %r: %s" % (desc, traceback.format_exc()))


def _nestable_pool(n):
    """a fork pool whose workers may themselves start processes (the forking-server checks need that)"""
    import multiprocessing.pool

    class NoDaemonProcess(multiprocessing.context.ForkProcess):
        @property
        def daemon(self):
            return False

        @daemon.setter
        def daemon(self, value):
            pass

    class NoDaemonContext(type(multiprocessing.get_context("fork"))):
        Process = NoDaemonProcess

    return multiprocessing.pool.Pool(n, maxtasksperchild=1, context=NoDaemonContext())


def validate_evidence(ev):
    for k in ("property_id", "tier", "seed", "level", "coverage", "wall_s"):
        if k not in ev:
            raise HarnessError("evidence lacks %s" % k)
    if ev["level"] not in LEVELS or ev["tier"] not in ("quick", "thorough") or not isinstance(ev["seed"], int):
        raise HarnessError("evidence header invalid")
    cov = ev["coverage"]
    if ev["level"] in ("exploration", "fault_enumeration"):
        if not (isinstance(cov.get("evaluations"), int) and cov["evaluations"] >= 1):
            raise HarnessError("evidence: evaluations")
        if not (isinstance(cov.get("distinct_nontrivial"), int) and cov["distinct_nontrivial"] >= 2):
            raise HarnessError("evidence: distinct_nontrivial=%r (<2): generator is not reaching the cases "
                               "that matter" % cov.get("distinct_nontrivial"))
        if not isinstance(cov.get("rule"), str) or not cov.get("samples"):
            raise HarnessError("evidence: rule/samples")
    try:
        import jsonschema
        with open("/root/.vp/EVIDENCE.schema.json") as f:
            jsonschema.validate(ev, json.load(f))
    except ImportError:
        pass
    except OSError:
        pass


def main(argv=None):
    ap = argparse.ArgumentParser()
    ap.add_argument("prop")
    ap.add_argument("--tier", default=os.environ.get("VERIF_TIER") or "quick", choices=("quick", "thorough"))
    ap.add_argument("--replay")
    ap.add_argument("--jobs", type=int, default=int(os.environ.get("VERIF_JOBS", "0")) or (os.cpu_count() or 4))
    ap.add_argument("--scale", type=float, default=float(os.environ.get("VERIF_SCALE", "1")))
    ap.add_argument("--only", default=None, help="run only shard descriptors whose 'part' matches (debugging)")
    args = ap.parse_args(argv)
    prop = args.prop.upper()
    try:
        seed = int(os.environ.get("VERIF_SEED", "1"))
    except ValueError:
        seed = 1
    t0 = time.time()
    try:
        _prepare_tree()
        modname = "props.%s" % prop.lower()
        mod = importlib.import_module(modname)
        known = load_known(prop)
        if args.replay:
            return _replay(mod, prop, args.replay, known)
        os.environ["VERIF_SCALE_EFFECTIVE"] = repr(args.scale)
        descs = mod.plan(args.tier, args.scale)
        if args.only:
            descs = [d for d in descs if args.only in str(d.get("part"))]
        jobs = [(modname, d, seed * 1000003 + i, prop, known, args.tier) for i, d in enumerate(descs)]
        total = Recorder(prop, known)
        errors = []
        if args.jobs <= 1 or len(jobs) == 1:
            results = [_shard_entry(j) for j in jobs]
        else:
            with _nestable_pool(min(args.jobs, len(jobs))) as pool:
                results = pool.map(_shard_entry, jobs, chunksize=1)
        for status, payload in results:
            if status == "ok":
                total.merge(payload)
            else:
                errors.append(payload)
        wall = time.time() - t0
        return _finish(mod, prop, args.tier, seed, total, errors, wall, len(descs))
    except HarnessError as ex:
        print("HARNESS-ERROR property=%s %s" % (prop, ex))
        return 2
    except Exception:
        print("HARNESS-ERROR property=%s\n%s" % (prop, traceback.format_exc()))
        return 2


def _finish(mod, prop, tier, seed, total, errors, wall, nshards):
    outdir = os.path.join(HOME, "out", prop)
    os.makedirs(outdir, exist_ok=True)
    for fn in os.listdir(outdir):            # replay files of earlier runs are stale
        if fn.endswith(".json"):
            os.remove(os.path.join(outdir, fn))
    lines = []
    for sig, n in sorted(total.known_hits.items()):
        lines.append("KNOWN-FINDING: property=%s %s [signature %s, %d case(s) this run]"
                     % (prop, total.known[sig], sig, n))
    viol = []
    for sig, slot in sorted(total.failures.items()):
        name = "".join(ch if ch.isalnum() else "_" for ch in sig)[:80]
        path = os.path.join(outdir, "%s.json" % name)
        with open(path, "w") as f:
            json.dump(slot, f, indent=1, default=repr)
        viol.append((sig, path))
    level = getattr(mod, "LEVEL", "exploration")
    samples = list(total.samples.values())[:10]
    cov = {
        "evaluations": total.evaluations,
        "distinct_nontrivial": len(total.nontrivial),
        "rule": mod.RULE,
        "samples": samples,
        "classes": dict(sorted(total.classes.items())),
        "counters": dict(sorted(total.counters.items())),
        "known_finding_hits": dict(total.known_hits),
        "shards": nshards,
    }
    if total.exhaustive is not None:
        cov["exhaustive"] = bool(total.exhaustive)
    if total.notes:
        cov["notes"] = total.notes[:20]
    ev = {
        "property_id": prop, "tier": tier, "seed": seed, "level": level, "coverage": cov,
        "assumptions": list(getattr(mod, "ASSUMPTIONS", [])), "wall_s": round(wall, 2),
        "violations": len(viol),
    }
    if errors:
        for e in errors:
            print("HARNESS-ERROR property=%s %s" % (prop, e))
        # still report any violations that were observed against the real code
    evpath = os.path.join(HOME, "evidence", "%s.json" % prop)
    os.makedirs(os.path.dirname(evpath), exist_ok=True)
    try:
        validate_evidence(ev)
        ev_ok = True
    except HarnessError as ex:
        print("HARNESS-ERROR property=%s %s" % (prop, ex))
        ev_ok = False
    with open(evpath, "w") as f:
        json.dump(ev, f, indent=1, default=repr)
        f.write("\n")
    for ln in lines:
        print(ln)
    print("%s tier=%s seed=%d evaluations=%d distinct_nontrivial=%d wall=%.1fs shards=%d"
          % (prop, tier, seed, total.evaluations, len(total.nontrivial), wall, nshards))
    if viol:
        for sig, path in viol:
            print("VIOLATION property=%s replay=%s signature=%s" % (prop, path, sig))
        return 1
    if errors or not ev_ok:
        return 2
    return 0


def _replay(mod, prop, path, known):
    with open(path) as f:
        slot = json.load(f)
    rec = Recorder(prop, known)
    fails = mod.replay(slot["case"], rec) or []
    bad = rec.triage(fails)
    for sig, n in rec.known_hits.items():
        print("KNOWN-FINDING: property=%s %s [signature %s]" % (prop, rec.known[sig], sig))
    if bad:
        for f in bad:
            print("  clause=%s key=%s observed=%r expected=%r" % (f.clause, f.key, f.observed, f.expected))
        print("VIOLATION property=%s replay=%s" % (prop, path))
        return 1
    print("%s replay: no violation on this tree" % prop)
    return 0


if __name__ == "__main__":
    sys.exit(main())
