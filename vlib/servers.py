"""Real rpyc servers on loopback / unix sockets for C16 and C17 (real sockets, real threads / processes)."""
import collections
import gc
import itertools
import logging
import multiprocessing
import os
import shutil
import signal
import socket
import struct
import tempfile
import threading
import time

BOUND = 10.0          # generous liveness bound (seconds of real time) against millisecond-scale work
MAGIC = b"Ma6ik"

_quiet = logging.getLogger("verif-servers")
_quiet.disabled = True
_quiet.propagate = False


def wait_until(pred, bound=BOUND, step=0.005):
    t0 = time.time()
    while time.time() - t0 < bound:
        if pred():
            return True
        time.sleep(step)
    return bool(pred())


def open_fds():
    try:
        return set(int(x) for x in os.listdir("/proc/self/fd"))
    except OSError:
        return set()


class Widget(object):
    """a class that well-behaved clients lend to the server by reference"""

    def __init__(self, tag):
        self.tag = tag

    def exposed_describe(self):
        return "widget:%s" % (self.tag,)


def make_service(events, slow_disconnect=0.0, slow_init=0.0):
    """service whose instances carry a per-connection token and private state; events records hooks"""
    import rpyc
    counter = itertools.count(1)
    lock = threading.Lock()

    class Svc(rpyc.Service):
        def __init__(self):
            if slow_init:
                time.sleep(slow_init)             # a service whose construction takes its time (other clients arrive meanwhile)

        def exposed_config(self):
            cfg = self.conn._config
            return (cfg.get("credentials"), cfg.get("endpoints"))

        def on_connect(self, conn):
            with lock:
                # the pid keeps tokens distinct under the forking server (each child has its own copy of the counter)
                self.token = "%d-%d" % (os.getpid(), next(counter))
            self.state = {}
            self.conn = conn
            events.append(("connect", self.token))

        def on_disconnect(self, conn):
            events.append(("disconnect", getattr(self, "token", None)))
            if slow_disconnect:
                time.sleep(slow_disconnect)       # an application hook that takes its time (other clients arrive meanwhile)

        def exposed_whoami(self):
            return self.token

        def exposed_put(self, k, v):
            self.state[k] = v
            return len(self.state)

        def exposed_get(self, k):
            return self.state.get(k, "<absent>")

        def exposed_make(self):
            return [self.token, "mine"]

        def exposed_echo(self, x):
            return x

        def exposed_build(self, cls, arg):
            # the client lends a class; the server calls it (a call back into that client) and reports what it got
            return cls(arg).describe()

        def exposed_table_size(self):
            return len(self.conn._local_objects._dict)

        def exposed_ids(self):
            return tuple(self.conn._local_objects._dict.keys())
    return Svc


def magic_authenticator(sock):
    from rpyc.utils.authenticators import AuthenticationError
    sock.settimeout(BOUND)
    try:
        got = b""
        while len(got) < len(MAGIC):
            chunk = sock.recv(len(MAGIC) - len(got))
            if not chunk:
                break
            got += chunk
    except (socket.error, socket.timeout):
        raise AuthenticationError("no magic word")
    finally:
        try:
            sock.settimeout(None)
        except Exception:
            pass
    if got != MAGIC:
        raise AuthenticationError("wrong magic word")
    # per-client credentials: who the client is, as far as the server can tell
    try:
        who = sock.getpeername()
    except (socket.error, OSError):
        who = None
    return sock, "authenticated:%r" % (who,)


def detaching_authenticator(sock):
    """like a TLS authenticator: the socket object it returns is a NEW object that took over the descriptor (the accepted one
    is detached, exactly what ssl's wrap_socket does)"""
    sock, creds = magic_authenticator(sock)
    new = socket.socket(sock.family, sock.type, sock.proto, fileno=sock.detach())
    return new, creds


class PollSpy(object):
    """wraps a server's poll object and remembers which descriptors are registered with it"""

    def __init__(self, real):
        self._real = real
        self.registered = set()
        self.calls = 0

    def register(self, fd, mode):
        self._real.register(fd, mode)
        self.registered.add(fd)

    def unregister(self, fd):
        self.registered.discard(fd)
        self._real.unregister(fd)

    def modify(self, fd, mode):
        self._real.modify(fd, mode)

    def poll(self, timeout=None):
        self.calls += 1
        return self._real.poll(timeout)


def _die_with_parent():
    """Linux: deliver SIGKILL to this process when its parent dies (no orphans holding sockets or pipes)"""
    try:
        import ctypes
        import signal
        ctypes.CDLL("libc.so.6", use_errno=True).prctl(1, signal.SIGKILL)
    except Exception:
        pass


def _children_states(ppid):
    """state letters (R, S, Z, ...) of the direct children of process `ppid`"""
    out = []
    for d in os.listdir("/proc"):
        if not d.isdigit():
            continue
        try:
            with open("/proc/%s/stat" % d) as f:
                rest = f.read().rsplit(")", 1)[1].split()
        except (IOError, OSError, IndexError):
            continue
        if int(rest[1]) == ppid:
            out.append(rest[0])
    return out


def _forking_main(conn_pipe, kind_kwargs, auth, socket_path):
    """runs in a helper process: ForkingServer installs a signal handler, so its main thread constructs it"""
    import rpyc
    from rpyc.utils.server import ForkingServer
    _die_with_parent()
    # neither this helper nor the children it forks may keep the harness's output pipes open
    devnull = os.open(os.devnull, os.O_RDWR)
    os.dup2(devnull, 1)
    os.dup2(devnull, 2)
    events = []
    Svc = make_service(events)
    kw = dict(logger=_quiet, auto_register=False, authenticator=magic_authenticator if auth else None, listener_timeout=0.05)
    if socket_path:
        srv = ForkingServer(Svc, socket_path=socket_path, **kw)
    else:
        srv = ForkingServer(Svc, hostname="127.0.0.1", port=0, **kw)
    srv._listen()
    if kind_kwargs.get("gate_sigchld"):
        # hold back child-exit notifications (every thread started from here inherits the mask) until "unblock": several
        # children can then have exited before the server is told once
        signal.pthread_sigmask(signal.SIG_BLOCK, {signal.SIGCHLD})
        # "unblock" must lift the mask in THIS (the main) thread, where a process normally receives SIGCHLD and where the
        # interpreter runs signal handlers: the control thread pokes it with SIGUSR1
        signal.signal(signal.SIGUSR1, lambda *a: signal.pthread_sigmask(signal.SIG_UNBLOCK, {signal.SIGCHLD}))
    conn_pipe.send(("ready", srv.port))

    state = {"phase": "serving"}

    def control():
        # runs beside the accept loop; close() itself must run in the main thread (it restores a signal handler)
        while True:
            try:
                msg = conn_pipe.recv()
            except EOFError:
                os._exit(0)
            if msg == "close":
                # start() leaves its loop and runs close() in the main thread; repeat until it has (start() may not
                # even have been entered yet and would switch the flag back on; a unix listener has no accept
                # timeout and is woken with a throw-away connection)
                while state["phase"] == "serving":
                    srv.active = False
                    if socket_path:
                        try:
                            w = socket.socket(socket.AF_UNIX, socket.SOCK_STREAM)
                            w.settimeout(0.5)
                            w.connect(socket_path)
                            w.close()
                        except (socket.error, OSError):
                            pass
                    time.sleep(0.05)
                return
            elif msg == "alive":
                conn_pipe.send(("alive", srv.active))
            elif msg == "fds":
                conn_pipe.send(("fds", len(os.listdir("/proc/self/fd"))))
            elif msg == "children":
                conn_pipe.send(("children", _children_states(os.getpid())))
            elif msg == "unblock":
                signal.pthread_kill(threading.main_thread().ident, signal.SIGUSR1)
                conn_pipe.send(("unblock", None))
            elif msg == "exit":
                os._exit(0)
    t = threading.Thread(target=control)
    t.daemon = True
    t.start()
    try:
        srv.start()                          # returns after close()
        state["phase"] = "closed"
        conn_pipe.send(("closed", None))
        while True:
            try:
                msg = conn_pipe.recv()
            except EOFError:
                break
            if msg == "close2":
                try:
                    srv.close()
                    conn_pipe.send(("closed2", None))
                except Exception as ex:
                    conn_pipe.send(("closed2", repr(ex)))
            elif msg == "exit":
                break
    finally:
        time.sleep(0.1)
        os._exit(0)


class Fixture(object):
    def __init__(self, kind, transport="tcp", auth=False, gate_sigchld=False, slow_disconnect=0.0, slow_init=0.0):
        import rpyc
        # per-client server threads that die of a hostile client's input would print their traceback; keep logs readable
        threading.excepthook = lambda args: None
        from rpyc.utils import server as S
        self.kind = kind
        self.transport = transport
        self.auth = auth
        self.events = []
        self.tmp = None
        self.proc = None
        self.server = None
        self.thread = None
        self.socket_path = None
        if transport == "unix":
            self.tmp = tempfile.mkdtemp(prefix="verif_srv_")
            self.socket_path = os.path.join(self.tmp, "s")
        if kind == "forking":
            self.pipe, child = multiprocessing.get_context("fork").Pipe()
            self.proc = multiprocessing.get_context("fork").Process(target=_forking_main, args=(child, {"gate_sigchld": gate_sigchld}, auth, self.socket_path))
            self.proc.daemon = True
            self.proc.start()
            if not self.pipe.poll(BOUND):
                raise RuntimeError("forking server did not start")
            tag, port = self.pipe.recv()
            self.port = port
        else:
            cls = {"threaded": S.ThreadedServer, "pool": S.ThreadPoolServer, "oneshot": S.OneShotServer}[kind]
            self.Svc = make_service(self.events, slow_disconnect, slow_init)
            kw = dict(logger=_quiet, auto_register=False, listener_timeout=0.05,
                      authenticator=(detaching_authenticator if auth == "detach" else magic_authenticator) if auth else None)
            if kind == "pool":
                kw["nbThreads"] = 4
            if self.socket_path:
                self.server = cls(self.Svc, socket_path=self.socket_path, **kw)
            else:
                self.server = cls(self.Svc, hostname="127.0.0.1", port=0, **kw)
            self.pollspy = None
            if kind == "pool":
                self.pollspy = self.server.poll_object = PollSpy(self.server.poll_object)
            self.thread = self.server._start_in_thread()
            self.port = self.server.port
        self.closed = False

    # ---- clients
    def raw_socket(self, magic=True):
        if self.transport == "unix":
            s = socket.socket(socket.AF_UNIX, socket.SOCK_STREAM)
            s.settimeout(BOUND)
            s.connect(self.socket_path)
        else:
            s = socket.create_connection(("127.0.0.1", self.port), timeout=BOUND)
        if self.auth and magic:
            s.sendall(MAGIC)
        return s

    def connect_good(self, timeout=BOUND):
        import rpyc
        from rpyc.core.stream import SocketStream
        s = self.raw_socket()
        s.settimeout(BOUND)
        return rpyc.connect_stream(SocketStream(s), config={"sync_request_timeout": timeout})

    # ---- server control
    def close_server(self):
        if self.kind == "forking":
            self.pipe.send("close")
            if not self.pipe.poll(BOUND):
                return "close() did not return within %ss" % BOUND
            self.pipe.recv()
            return None
        err = []

        def run():
            try:
                self.server.close()
            except Exception as ex:
                err.append(repr(ex))
        t = threading.Thread(target=run)
        t.daemon = True
        t.start()
        t.join(BOUND)
        if t.is_alive():
            return "close() did not return within %ss" % BOUND
        return err[0] if err else None

    def arm_close_during_accept(self):
        """in-process servers: the NEXT connection the listener hands out is held back until server.close() has run to
        completion in another thread (the accept loop sees it only afterwards).  returns an object with .done / .err"""
        srv = self.server
        real = srv.listener

        class HeldListener(object):
            def __init__(self):
                self.armed = True
                self.done = threading.Event()
                self.entered = threading.Event()
                self.err = None

            def accept(self):
                self.entered.set()
                got = real.accept()
                if self.armed:
                    self.armed = False
                    errs = []

                    def run():
                        try:
                            srv.close()
                        except Exception as ex:
                            errs.append(repr(ex))
                    t = threading.Thread(target=run)
                    t.daemon = True
                    t.start()
                    t.join(BOUND)
                    self.err = "close() did not return within %ss" % BOUND if t.is_alive() else (errs[0] if errs else None)
                    self.done.set()
                return got

            def __getattr__(self, name):
                return getattr(real, name)
        srv.listener = HeldListener()
        return srv.listener

    def close_again(self):
        if self.kind == "forking":
            self.pipe.send("close2")
            if not self.pipe.poll(BOUND):
                return "second close() did not return"
            return self.pipe.recv()[1]
        try:
            self.server.close()
            return None
        except Exception as ex:
            return repr(ex)

    def helper_fds(self):
        """number of open descriptors in the forking server's parent process"""
        self.pipe.send("fds")
        if not self.pipe.poll(BOUND):
            return None
        return self.pipe.recv()[1]

    def helper_cmd(self, msg):
        self.pipe.send(msg)
        if not self.pipe.poll(BOUND):
            return None
        return self.pipe.recv()[1]

    def accepting(self):
        """can a fresh good client connect and complete a call?"""
        try:
            c = self.connect_good()
        except Exception as ex:
            return "connect failed: %s" % type(ex).__name__
        try:
            v = c.root.echo("fresh")
            if v != "fresh":
                return "fresh client got %r" % (v,)
            return None
        except Exception as ex:
            return "fresh client call failed: %s" % type(ex).__name__
        finally:
            try:
                c.close()
            except Exception:
                pass

    def refuses(self):
        try:
            s = self.raw_socket(magic=False)
        except (socket.error, OSError):
            return True
        # connected: maybe the backlog accepted it; it must at least be dead (EOF / reset), never served
        try:
            s.settimeout(1.0)
            if self.auth:
                s.sendall(MAGIC)
            s.sendall(frame_of(("x",)))
            try:
                d = s.recv(1)
                return d == b""
            except socket.timeout:
                return False
            except socket.error:
                return True
        finally:
            s.close()

    def stop(self):
        try:
            if self.kind == "forking":
                try:
                    self.pipe.send("exit")
                except Exception:
                    pass
                self.proc.join(2)
                if self.proc.is_alive():
                    self.proc.terminate()
                    self.proc.join(2)
                self.pipe.close()
            else:
                try:
                    self.server.close()
                except Exception:
                    pass
                if self.thread is not None:
                    self.thread.join(3)
        finally:
            if self.tmp:
                shutil.rmtree(self.tmp, ignore_errors=True)


def frame_of(obj):
    from vlib import refcodec
    return refcodec.frame(refcodec.dump(obj))


def abrupt_close(sock):
    """RST instead of FIN"""
    try:
        sock.setsockopt(socket.SOL_SOCKET, socket.SO_LINGER, struct.pack("ii", 1, 0))
    except (socket.error, OSError):
        pass
    sock.close()
