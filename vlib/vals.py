"""Value specs: JSON-able descriptions of Python values, their construction, exact comparison, and
Hypothesis strategies that construct them per wire class (construction, not filtering).

A spec is a list whose head is a tag.  build(spec) -> Python value.  Specs are what replay files hold.
"""
import collections
import enum
import struct
import sys
import types

from hypothesis import strategies as st

# --------------------------------------------------------------------------------------------------
# harness-defined non-plain types (subclass instances, objects...)


class IntSub(int):
    pass


class StrSub(str):
    pass


class BytesSub(bytes):
    pass


class FloatSub(float):
    pass


class ComplexSub(complex):
    pass


class TupleSub(tuple):
    pass


class FsetSub(frozenset):
    pass


class Color(enum.IntEnum):
    RED = 1
    GREEN = 2


class Flag(enum.IntFlag):
    A = 1
    B = 2


class StrEnumLike(str, enum.Enum):
    X = "x"


Point = collections.namedtuple("Point", "x y")


class Plain(object):
    def __init__(self):
        self.v = 0


def _func(x=0):
    return x


def _gen():
    yield 1


SUBS = {
    "intsub": lambda p: IntSub(p), "strsub": lambda p: StrSub(p), "bytessub": lambda p: BytesSub(p),
    "floatsub": lambda p: FloatSub(p), "complexsub": lambda p: ComplexSub(p),
    "tuplesub": lambda p: TupleSub(p), "fsetsub": lambda p: FsetSub(p),
    "intenum": lambda p: Color.RED, "intflag": lambda p: Flag.A | Flag.B, "strenum": lambda p: StrEnumLike.X,
    "namedtuple": lambda p: Point(1, 2),
}
SUB_PAYLOAD = {
    "intsub": ["int", "5"], "strsub": ["str", "s"], "bytessub": ["bytes", "6162"],
    "floatsub": ["float", "3ff8000000000000"], "complexsub": ["complex", "3ff0000000000000", "4000000000000000"],
    "tuplesub": ["tuple", [["int", "1"]]], "fsetsub": ["fset", [["int", "1"]]],
    "intenum": ["none"], "intflag": ["none"], "strenum": ["none"], "namedtuple": ["none"],
}


def build(spec):
    t = spec[0]
    if t == "none":
        return None
    if t == "ni":
        return NotImplemented
    if t == "ell":
        return Ellipsis
    if t == "bool":
        return bool(spec[1])
    if t == "int":
        return int(spec[1])
    if t == "pow10":          # ±(10**n + k): integers with n+1 digits without writing them out
        v = 10 ** spec[1] + spec[2]
        return -v if spec[3] else v
    if t == "float":
        return struct.unpack("!d", bytes.fromhex(spec[1]))[0]
    if t == "complex":
        return complex(struct.unpack("!d", bytes.fromhex(spec[1]))[0], struct.unpack("!d", bytes.fromhex(spec[2]))[0])
    if t == "bytes":
        return bytes.fromhex(spec[1])
    if t == "bytesrep":       # pattern repeated/truncated to n bytes
        pat = bytes.fromhex(spec[1]) or b"\0"
        return (pat * (spec[2] // len(pat) + 1))[:spec[2]]
    if t == "str":
        return spec[1]
    if t == "strrep":
        pat = spec[1] or "a"
        return (pat * (spec[2] // len(pat) + 1))[:spec[2]]
    if t == "tuple":
        return tuple(build(s) for s in spec[1])
    if t == "tuplerep":
        return (build(spec[1]),) * spec[2]
    if t == "fset":
        return frozenset(build(s) for s in spec[1])
    if t == "slice":
        return slice(build(spec[1]), build(spec[2]), build(spec[3]))
    # ---- non-plain
    if t == "list":
        return [build(s) for s in spec[1]]
    if t == "set":
        return set(build(s) for s in spec[1])
    if t == "dict":
        return dict((build(k), build(v)) for k, v in spec[1])
    if t == "bytearray":
        return bytearray.fromhex(spec[1])
    if t == "obj":
        return Plain()
    if t == "object":
        return object()
    if t == "func":
        return _func
    if t == "lambda":
        return lambda *a: a
    if t == "cls":
        return Plain
    if t == "builtincls":
        return int
    if t == "module":
        return types
    if t == "gen":
        return _gen()
    if t == "range":
        return range(3)
    if t == "memoryview":
        return memoryview(b"abc")
    if t == "exc":
        return ValueError("x")
    if t == "sub":
        return SUBS[spec[1]](build(spec[2]))
    raise ValueError("bad spec %r" % (spec,))


MAXDIG = (sys.get_int_max_str_digits() if hasattr(sys, "get_int_max_str_digits") else 0) or 10 ** 9

PLAIN_SCALARS = (int, bool, float, complex, str, bytes, type(None), type(NotImplemented), type(Ellipsis))


def plain(v):
    """the statement's 'immutable plain value', written independently of brine.dumpable"""
    tv = type(v)
    if tv is int:
        # "integers of any size the interpreter can render as text"
        lim = sys.get_int_max_str_digits() if hasattr(sys, "get_int_max_str_digits") else 0   # the limit in force NOW
        return not lim or v.bit_length() < 3 * lim or _renderable(v)
    if tv in PLAIN_SCALARS:
        return True
    if tv is tuple or tv is frozenset:
        for x in v:
            if not plain(x):
                return False
        return True
    if tv is slice:
        return plain(v.start) and plain(v.stop) and plain(v.step)
    return False


def _renderable(v):
    try:
        str(v)
        return True
    except ValueError:
        return False


def fbits(x):
    return struct.pack("!d", x)


def same(a, b):
    """type-exact, bit-exact structural equality for plain values"""
    ta = type(a)
    if ta is not type(b):
        return False
    if ta is float:
        return fbits(a) == fbits(b)
    if ta is complex:
        return fbits(a.real) == fbits(b.real) and fbits(a.imag) == fbits(b.imag)
    if ta is tuple:
        return len(a) == len(b) and all(same(x, y) for x, y in zip(a, b))
    if ta is frozenset:
        if len(a) != len(b):
            return False
        ka = sorted(canon(x) for x in a)
        kb = sorted(canon(x) for x in b)
        return ka == kb
    if ta is slice:
        return same(a.start, b.start) and same(a.stop, b.stop) and same(a.step, b.step)
    if ta in (int, bool, str, bytes):
        return a == b
    if a is None or a is NotImplemented or a is Ellipsis:
        return a is b
    return False


def canon(v):
    """canonical, totally ordered text key of a plain value (for multiset comparison and hashing)"""
    tv = type(v)
    if tv is float:
        return "f:" + fbits(v).hex()
    if tv is complex:
        return "c:" + fbits(v.real).hex() + fbits(v.imag).hex()
    if tv is tuple:
        return "t:(" + ",".join(canon(x) for x in v) + ")"
    if tv is frozenset:
        return "s:{" + ",".join(sorted(canon(x) for x in v)) + "}"
    if tv is slice:
        return "l:[" + canon(v.start) + "," + canon(v.stop) + "," + canon(v.step) + "]"
    if tv is bytes:
        return "b:" + v.hex()
    if tv is str:
        return "u:" + v.encode("utf8", "surrogatepass").hex()
    if tv is bool:
        return "B:%d" % v
    if tv is int:
        return "i:%d" % v if v.bit_length() < 160 else "i:big%d:%d" % (v.bit_length(), v % 1000003)
    if v is None:
        return "N"
    if v is NotImplemented:
        return "NI"
    if v is Ellipsis:
        return "E"
    return "?:%s" % tv.__name__


def describe(v, depth=0):
    """short JSON-able description of any value (used in 'observed' fields)"""
    try:
        if plain(v):
            c = canon(v)
            return c if len(c) < 200 else c[:200] + "...(%d)" % len(c)
    except Exception:
        pass
    return "<%s>" % type(v).__name__


# --------------------------------------------------------------------------------------------------
# strategies (specs)

_F_SPECIAL = ["0000000000000000", "8000000000000000", "7ff0000000000000", "fff0000000000000",
              "7ff8000000000000", "fff8000000000000", "7ff0000000000001", "7ff8000000000123",
              "fff4000000abcdef", "0000000000000001", "800fffffffffffff", "3ff0000000000000",
              "7fefffffffffffff", "0010000000000000"]


def float_hex():
    return st.one_of(st.sampled_from(_F_SPECIAL),
                     st.integers(0, 2 ** 64 - 1).map(lambda n: "%016x" % n),
                     st.floats(allow_nan=False).map(lambda f: fbits(f).hex()))


def huge_ints():
    """integers around and beyond the interpreter's int->str digit limit (not renderable as text beyond it)"""
    nd = st.sampled_from([MAXDIG - 1, MAXDIG, MAXDIG + 1, MAXDIG + 2, 2 * MAXDIG, 5000, 20000])
    return st.tuples(nd, st.integers(0, 9), st.booleans()).map(lambda t: ["pow10", t[0] - 1, t[1], t[2]])


def ints():
    imm = st.integers(-0x30, 0x9f)
    edge = st.sampled_from([-0x31, -0x30, 0x9f, 0xa0, -0x32, 0xa1, 255, 256, 2 ** 31, 2 ** 32, 2 ** 63, 2 ** 64,
                            -2 ** 63, -2 ** 31, 10 ** 253, 10 ** 254 - 1, 10 ** 254, 10 ** 255 - 1, 10 ** 255,
                            -(10 ** 253), -(10 ** 254) + 1, -(10 ** 254), 10 ** 256])
    small = st.integers(-10 ** 6, 10 ** 6)
    wide = st.integers(-2 ** 200, 2 ** 200)
    plainint = st.one_of(imm, edge, small, wide).map(lambda n: ["int", str(n)])
    # digit-count classes: 254/255/256 digits with and without sign, and up to the interpreter's limit
    ndig = st.sampled_from([253, 254, 255, 256, 257, 300, 1000, MAXDIG - 2, MAXDIG - 1])
    big = st.tuples(ndig, st.integers(0, 999), st.booleans()).map(lambda t: ["pow10", t[0] - 1, t[1], t[2]])
    return st.one_of(plainint, plainint, plainint, big)


_LENS_SMALL = [0, 1, 2, 3, 4, 5, 6, 17, 100, 254, 255, 256, 257]
_LENS_BIG = [2999, 3000, 3001, 63999, 64000, 64001, 70000]


def _lengths(big=True):
    opts = [st.sampled_from(_LENS_SMALL), st.integers(0, 40)]
    if big:
        opts.append(st.sampled_from(_LENS_BIG))
    return st.one_of(*opts)


def byteses(big=True):
    lit = st.binary(max_size=40).map(lambda b: ["bytes", b.hex()])
    rep = st.tuples(st.binary(min_size=1, max_size=5), _lengths(big)).map(lambda t: ["bytesrep", t[0].hex(), t[1]])
    return st.one_of(lit, rep)


_ALPH = st.one_of(
    st.characters(min_codepoint=0, max_codepoint=0x7f),
    st.characters(min_codepoint=0x80, max_codepoint=0x7ff),
    st.characters(min_codepoint=0x800, max_codepoint=0xffff, exclude_categories=["Cs"]),
    st.characters(min_codepoint=0x10000, max_codepoint=0x10ffff),
)
_SURR = st.characters(min_codepoint=0xd800, max_codepoint=0xdfff, categories=["Cs"])


def texts(big=True, surrogates=True):
    alph = st.one_of(_ALPH, _ALPH, _ALPH, _SURR) if surrogates else _ALPH
    lit = st.text(alphabet=alph, max_size=30).map(lambda s: ["str", s])
    rep = st.tuples(st.text(alphabet=_ALPH, min_size=1, max_size=3), _lengths(big)).map(
        lambda t: ["strrep", t[0], t[1]])
    if not surrogates:
        return st.one_of(lit, lit, rep)
    # lone surrogates by construction (st.text over a mixed alphabet yields them about once in a thousand texts)
    plain = st.text(alphabet=_ALPH, max_size=5)
    surr = st.tuples(plain, st.lists(st.integers(0xd800, 0xdfff).map(chr), min_size=1, max_size=3), plain).map(
        lambda t: ["str", t[0] + "".join(t[1]) + t[2]])
    return st.one_of(lit, lit, rep, surr)


def scalars(big=True, surrogates=True):
    return st.one_of(
        st.sampled_from([["none"], ["ni"], ["ell"], ["bool", True], ["bool", False]]),
        ints(),
        float_hex().map(lambda h: ["float", h]),
        st.tuples(float_hex(), float_hex()).map(lambda t: ["complex", t[0], t[1]]),
        byteses(big),
        texts(big, surrogates),
    )


def _containers(children, surrogates=True):
    tup_small = st.lists(children, max_size=6).map(lambda xs: ["tuple", xs])
    # long tuples repeat one *small scalar* (a recursive child here would grow as 300**depth)
    tup_edge = st.tuples(scalars(big=False, surrogates=surrogates), st.sampled_from([5, 254, 255, 256, 257, 300])).map(
        lambda t: ["tuplerep", t[0], t[1]])
    fset = st.lists(children, max_size=5).map(lambda xs: ["fset", xs])
    slc = st.tuples(children, children, children).map(lambda t: ["slice", t[0], t[1], t[2]])
    return st.one_of(tup_small, tup_small, tup_edge, fset, slc)


def immutables(big=True, surrogates=True, max_leaves=12):
    """every brine shape, by construction"""
    return st.recursive(scalars(big, surrogates), lambda ch: _containers(ch, surrogates), max_leaves=max_leaves)


_NONPLAIN_LEAVES = [["list", []], ["list", [["int", "1"]]], ["set", []], ["dict", []],
                    ["dict", [[["str", "k"], ["int", "1"]]]], ["bytearray", "6162"], ["obj"], ["object"], ["func"],
                    ["lambda"], ["cls"], ["builtincls"], ["module"], ["gen"], ["range"], ["memoryview"], ["exc"]] + \
    [["sub", k, SUB_PAYLOAD[k]] for k in sorted(SUBS)]


def nonplain_leaves():
    return st.sampled_from(_NONPLAIN_LEAVES)


def non_dumpables(max_leaves=8):
    """values that are NOT plain: a non-plain leaf, possibly buried in otherwise plain containers.
    Constructed so that at least one non-plain leaf is always present."""
    imm = immutables(big=False, max_leaves=4)
    leaf = nonplain_leaves()

    def wrap(inner):
        # put a non-plain value somewhere inside a tuple / frozenset(if hashable) / slice
        in_tuple = st.tuples(st.lists(imm, max_size=3), inner, st.lists(imm, max_size=3)).map(
            lambda t: ["tuple", t[0] + [t[1]] + t[2]])
        in_slice = st.tuples(imm, inner, st.integers(0, 2)).map(
            lambda t: ["slice"] + [t[1] if i == t[2] else t[0] for i in range(3)])
        return st.one_of(in_tuple, in_slice)
    hashable_leaf = st.sampled_from([s for s in _NONPLAIN_LEAVES if s[0] in ("obj", "object", "func", "cls", "module",
                                                                                "builtincls", "range", "sub")
                                     and not (s[0] == "sub" and s[1] in ("tuplesub", "fsetsub"))])
    in_fset = st.tuples(st.lists(imm.filter(_hashable_spec), max_size=2), hashable_leaf).map(
        lambda t: ["fset", t[0] + [t[1]]])
    return st.recursive(st.one_of(leaf, leaf, in_fset), wrap, max_leaves=max_leaves)


def _hashable_spec(spec):
    # slices are unhashable before 3.12; keep frozenset members simple
    t = spec[0]
    if t == "slice":
        return sys.version_info >= (3, 12) and all(_hashable_spec(s) for s in spec[1:])
    if t in ("tuple", "fset"):
        return all(_hashable_spec(s) for s in spec[1])
    if t == "tuplerep":
        return _hashable_spec(spec[1])
    return True


def is_composite(spec):
    return spec[0] in ("tuple", "tuplerep", "fset", "slice")


def spec_classes(spec, out=None, depth=0):
    """class labels for the evidence histogram"""
    if out is None:
        out = set()
    t = spec[0]
    out.add("tag:" + t if t != "sub" else "sub:" + spec[1])
    if t in ("tuple", "fset", "list", "set"):
        n = len(spec[1])
        out.add("%s-len:%s" % (t, n if n <= 5 else ("6-255" if n < 256 else "256+")))
        for s in spec[1]:
            spec_classes(s, out, depth + 1)
    elif t == "tuplerep":
        out.add("tuple-len:%s" % ("6-255" if spec[2] < 256 else "256+") if spec[2] > 5 else "tuple-len:%d" % spec[2])
        spec_classes(spec[1], out, depth + 1)
    elif t == "slice":
        for s in spec[1:]:
            spec_classes(s, out, depth + 1)
    elif t in ("bytesrep", "strrep"):
        n = spec[2]
        out.add("%s-len:%s" % (t[:-3], n if n <= 5 else ("6-255" if n < 256 else ("256-2999" if n < 3000 else "3000+"))))
    elif t == "bytes":
        n = len(spec[1]) // 2
        out.add("bytes-len:%s" % (n if n <= 5 else "6-255"))
    elif t == "str":
        if any(0xd800 <= ord(ch) <= 0xdfff for ch in spec[1]):
            out.add("str:lone-surrogate")
        if any(ord(ch) > 0xffff for ch in spec[1]):
            out.add("str:astral")
    elif t == "pow10":
        out.add("int-digits:%d" % (spec[1] + 1) if spec[1] + 1 <= MAXDIG else "int-digits:beyond-text-limit")
    elif t == "int":
        n = int(spec[1])
        out.add("int:immediate" if -0x30 <= n < 0xa0 else "int:long")
    elif t == "float":
        b = int(spec[1], 16)
        e = (b >> 52) & 0x7ff
        m = b & ((1 << 52) - 1)
        if e == 0x7ff:
            out.add("float:nan" if m else "float:inf")
        elif e == 0 and m == 0:
            out.add("float:zero-neg" if b >> 63 else "float:zero")
        elif e == 0:
            out.add("float:subnormal")
    if depth >= 3:
        out.add("depth>=3")
    return out
