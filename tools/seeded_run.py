#!/usr/bin/env python3
"""Re-validate every kept seeded change against the CURRENT /repo HEAD and run the checks against it.

For each /verif/seeded/<id>/ :
  1. patch.diff must apply to a scratch worktree of /repo HEAD (git apply; falls back to --3way and then rewrites
     patch.diff against HEAD so that `git -C /repo apply` works);
  2. demo.py must still exit 0 without and non-zero with the patch;
  3. the listed checks (own property + extra) are run with VERIF_REPO=<scratch>; result recorded in meta.json["runs"].
Nothing is ever applied to /repo itself.  usage: tools/seeded_run.py [--only C07] [--no-checks] [--jobs 4]
"""
import argparse
import json
import os
import shutil
import subprocess
import sys
import tempfile

HOME = os.path.dirname(os.path.dirname(os.path.abspath(__file__)))
EXTRA = {"C08-m1": ["C13"], "C06-m1": ["C07"], "C02-m2": ["C06"], "C13-m2": ["C14"], "C11-m2": ["C14", "C13"], "C14-m1": ["C13"],
         "C14-m2": ["C13"], "C19-m1": ["C05"], "C01-m1": ["C09"], "C17-m2": ["C11"], "C10-m1": [], "C09-m1": [],
         "C08-m3": ["C12"], "C10-m3": ["C12"], "C13-m3": ["C12"], "C08-m4": ["C04"], "C01-m3": ["C03"], "C01-m4": ["C15"], "C03-m3": ["C10"],
         "C13-m4": [], "C15-m3": ["C14"], "C09-m4": ["C08"], "C19-m4": ["C05"], "C19-m3": ["C04"], "C14-m3": ["C13"], "C14-m4": ["C13"],
         "C16-m3": ["C17"], "C16-m4": ["C17"], "C06-m3": ["C07"], "C06-m4": ["C07"],
         "C01-m5": ["C13", "C15"], "C01-m6": ["C08"], "C03-m5": ["C04"], "C03-m6": ["C10"], "C04-m6": ["C19"], "C05-m6": ["C19"],
         "C06-m5": ["C07"], "C06-m6": ["C07"], "C07-m5": ["C06"], "C07-m6": ["C06"], "C08-m5": ["C04"], "C08-m6": ["C13"],
         "C09-m5": ["C13"], "C10-m6": ["C11"], "C11-m5": ["C10"], "C11-m6": ["C05"], "C13-m5": ["C12"], "C13-m6": ["C15"],
         "C14-m5": ["C13"], "C14-m6": ["C13"], "C15-m6": ["C13"], "C16-m5": ["C05"], "C16-m6": ["C17"], "C17-m5": ["C16"],
         "C17-m6": ["C16"], "C19-m5": ["C05"], "C19-m6": ["C04"],
         "C01-m7": ["C13", "C15"], "C01-m8": ["C03", "C10"], "C03-m7": ["C01", "C10"], "C03-m8": ["C10"], "C05-m7": ["C19"],
         "C05-m8": ["C11"], "C08-m7": ["C15"], "C08-m8": ["C15"], "C09-m7": ["C01"], "C09-m8": ["C08"], "C10-m7": ["C15"],
         "C10-m8": ["C15"], "C11-m7": ["C05"], "C13-m7": ["C14"], "C13-m8": ["C12"], "C14-m7": ["C13"], "C14-m8": ["C13"],
         "C15-m8": ["C13"], "C16-m7": ["C17"], "C16-m8": ["C17"],
         "C02-m9": ["C03"], "C02-m10": ["C09"], "C04-m9": ["C12"], "C04-m10": ["C03"], "C06-m9": ["C07"], "C06-m10": ["C07"],
         "C12-m9": ["C13"], "C12-m10": ["C05"], "C19-m10": ["C04"], "C20-m10": ["C13"], "C07-m9": ["C06"], "C07-m10": ["C06"]}


def sh(cmd, **kw):
    return subprocess.run(cmd, shell=True, stdout=subprocess.PIPE, stderr=subprocess.STDOUT, text=True, **kw)


def one(name, args):
    d = os.path.join(HOME, "seeded", name)
    meta_path = os.path.join(d, "meta.json")
    meta = json.load(open(meta_path))
    wt = tempfile.mkdtemp(prefix="seeded-%s-" % name, dir="/tmp/wt")
    os.rmdir(wt)
    sh("git -C /repo worktree add -q --detach %s HEAD" % wt)
    out = {"name": name}
    try:
        patch = os.path.join(d, "patch.diff")
        r = sh("git -C %s apply %s" % (wt, patch))
        if r.returncode != 0:
            r3 = sh("git -C %s apply --3way %s" % (wt, patch))
            conflict = sh("git -C %s diff --name-only --diff-filter=U" % wt).stdout.strip()
            if r3.returncode != 0 or conflict:
                out["apply"] = "CONFLICT: " + (r3.stdout[-200:] or conflict)
                return out
            sh("git -C %s reset -q" % wt)
            new = sh("git -C %s diff" % wt).stdout
            shutil.copy(patch, os.path.join(d, "patch.orig.diff")) if not os.path.exists(os.path.join(d, "patch.orig.diff")) else None
            open(patch, "w").write(new)
            out["apply"] = "rebased onto HEAD (3-way)"
        else:
            out["apply"] = "applies"
        os.makedirs(os.path.join(wt, "seed", "m"), exist_ok=True)
        demo = open(os.path.join(d, "demo.py")).read()
        import re
        demo = re.sub(r"/tmp/wt/C\d\d", wt, demo)
        open(os.path.join(wt, "seed", "m", "demo.py"), "w").write(demo)
        cmd = "cd %s && PYTHONDONTWRITEBYTECODE=1 PYTHONPATH=%s timeout 120 /venv/bin/python seed/m/demo.py" % (wt, wt)
        r1 = sh(cmd)
        # (not `git stash`: the stash ref is shared by all worktrees of /repo, so concurrent runs would pop each other's patch)
        sh("git -C %s diff > %s/.seed.diff && git -C %s checkout -q -- ." % (wt, wt, wt))
        r0 = sh(cmd)
        ra = sh("git -C %s apply %s/.seed.diff" % (wt, wt))
        if ra.returncode != 0:
            out["apply"] = "RE-APPLY FAILED: " + ra.stdout[-200:]
            return out
        out["demo"] = "patched exit %d / clean exit %d" % (r1.returncode, r0.returncode)
        out["demo_ok"] = r1.returncode != 0 and r0.returncode == 0
        runs = {}
        if not args.no_checks:
            checks = [meta["property"]] + EXTRA.get(name, [])
            for pid in checks:
                env = dict(os.environ, VERIF_REPO=wt, VERIF_SEED="1")
                rr = sh("cd %s && timeout 1500 ./check %s --tier quick < /dev/null" % (HOME, pid), env=env)
                viol = [ln for ln in rr.stdout.splitlines() if ln.startswith("VIOLATION")]
                runs[pid] = ("DETECTED " + viol[0].split("signature=")[-1][:110]) if (rr.returncode == 1 and viol) else \
                    ("harness-error" if rr.returncode == 2 else "missed")
        out["runs"] = runs
        meta["revalidated_on"] = sh("git -C /repo rev-parse --short HEAD").stdout.strip()
        meta["apply_on_head"] = out["apply"]
        meta["demo_on_head"] = out["demo"]
        if runs:
            meta["detected_by"] = runs
        json.dump(meta, open(meta_path, "w"), indent=1)
        return out
    finally:
        sh("git -C /repo worktree remove --force %s" % wt)
        shutil.rmtree(wt, ignore_errors=True)


def main():
    ap = argparse.ArgumentParser()
    ap.add_argument("--only")
    ap.add_argument("--no-checks", action="store_true")
    args = ap.parse_args()
    names = sorted(n for n in os.listdir(os.path.join(HOME, "seeded")) if os.path.isdir(os.path.join(HOME, "seeded", n)))
    if args.only:
        names = [n for n in names if args.only in n]
    for n in names:
        o = one(n, args)
        print("%-8s %-28s %-34s %s" % (o["name"], o.get("apply", "")[:28], o.get("demo", "")[:34], o.get("runs", "")))
        sys.stdout.flush()


if __name__ == "__main__":
    main()
