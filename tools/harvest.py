#!/usr/bin/env python3
"""Confirm and keep a seeded change produced by a sub-agent.

usage: tools/harvest.py C04 [m1 m2 ...]
For each /tmp/wt/<ID>/seed/<m>/{patch.diff,demo.py,notes.md}: in a private scratch worktree of /repo
  1. demo on the unmodified tree exits 0
  2. patch applies; demo exits non-zero
  3. the repository's 57 baseline tests still pass with the patch (private network namespace)
and only then copy it to /verif/seeded/<ID>-<m>/ with meta.json.  The scratch worktree is removed afterwards.
"""
import json
import os
import shutil
import subprocess
import sys
import tempfile

HOME = os.path.dirname(os.path.dirname(os.path.abspath(__file__)))


def sh(cmd, **kw):
    return subprocess.run(cmd, shell=True, stdout=subprocess.PIPE, stderr=subprocess.STDOUT, text=True, **kw)


def main():
    pid = sys.argv[1]
    src = "/tmp/wt/%s/seed" % pid
    names = sys.argv[2:] or sorted(os.listdir(src))
    props = {json.loads(l)["id"]: json.loads(l) for l in open(os.path.join(HOME, "properties.jsonl"))}
    for m in names:
        d = os.path.join(src, m)
        if not os.path.exists(os.path.join(d, "patch.diff")):
            continue
        wt = tempfile.mkdtemp(prefix="harvest-%s-%s-" % (pid, m), dir="/tmp/wt")
        os.rmdir(wt)
        r = sh("git -C /repo worktree add -q --detach %s HEAD" % wt)
        ran = []
        try:
            os.makedirs(os.path.join(wt, "seed", m))
            shutil.copy(os.path.join(d, "demo.py"), os.path.join(wt, "seed", m, "demo.py"))
            # demos written by the agents sometimes hard-code their own worktree path
            demo = open(os.path.join(wt, "seed", m, "demo.py")).read().replace("/tmp/wt/%s" % pid, wt)
            open(os.path.join(wt, "seed", m, "demo.py"), "w").write(demo)
            cmd = "cd %s && PYTHONDONTWRITEBYTECODE=1 PYTHONPATH=%s timeout 120 /venv/bin/python seed/%s/demo.py" % (wt, wt, m)
            r0 = sh(cmd)
            ran.append({"cmd": "demo on unmodified tree", "exit": r0.returncode, "tail": r0.stdout[-300:]})
            ra = sh("git -C %s apply %s" % (wt, os.path.join(d, "patch.diff")))
            ran.append({"cmd": "git apply patch.diff", "exit": ra.returncode, "tail": ra.stdout[-300:]})
            r1 = sh(cmd)
            ran.append({"cmd": "demo with patch", "exit": r1.returncode, "tail": r1.stdout[-400:]})
            rt = sh("/tmp/wt/runtests.sh %s" % wt)
            base = [ln for ln in rt.stdout.splitlines() if ln.startswith("BASELINE")]
            ran.append({"cmd": "repository test suite with patch (private netns)", "result": base[0] if base else rt.stdout[-300:]})
            ok = r0.returncode == 0 and ra.returncode == 0 and r1.returncode != 0 and base and "57 of 57" in base[0]
            print("%s-%s: demo clean=%d, patched=%d, %s -> %s" % (pid, m, r0.returncode, r1.returncode,
                                                                 base[0] if base else "no baseline line", "KEEP" if ok else "REJECT"))
            if ok:
                dst = os.path.join(HOME, "seeded", "%s-%s" % (pid, m))
                os.makedirs(dst, exist_ok=True)
                for fn in ("patch.diff", "demo.py", "notes.md"):
                    if os.path.exists(os.path.join(d, fn)):
                        shutil.copy(os.path.join(d, fn), os.path.join(dst, fn))
                notes = open(os.path.join(d, "notes.md")).read() if os.path.exists(os.path.join(d, "notes.md")) else ""
                meta = {"property": pid, "property_title": props[pid]["title"], "origin": "independent sub-agent given only the property text and a scratch worktree",
                        "needs_to_manifest": _extract(notes), "confirmed_by_harness_author": ran,
                        "base_commit": sh("git -C /repo rev-parse --short HEAD").stdout.strip(),
                        "detected_by": "see DESIGN.md §9 (filled by tools/seeded_run.py)"}
                with open(os.path.join(dst, "meta.json"), "w") as f:
                    json.dump(meta, f, indent=1)
            else:
                print(json.dumps(ran, indent=1)[-1500:])
        finally:
            sh("git -C /repo worktree remove --force %s" % wt)
            shutil.rmtree(wt, ignore_errors=True)


def _extract(notes):
    low = notes.lower()
    for key in ("needs in order to manifest", "what it needs", "needs to manifest", "needs"):
        i = low.find(key)
        if i >= 0:
            return " ".join(notes[i:i + 600].split())
    return " ".join(notes[:400].split())


if __name__ == "__main__":
    main()
