#!/usr/bin/env python3
"""One-off editor that brings DESIGN.md from the pre-build design to the as-built state (idempotent)."""
import json
import os
import re

HOME = os.path.dirname(os.path.dirname(os.path.abspath(__file__)))
P = os.path.join(HOME, "DESIGN.md")
s = open(P).read()

STATUS = """
> **Status (as built).** All 20 properties have a registered check (`MANIFEST.json`, `./check <ID> --tier quick|thorough`,
> `./check <ID> --replay <file>`); `not_applicable` is empty. The text below is the original design with an **As built**
> paragraph per property where the implementation differs or was narrowed, the real findings (§3), the calibration log
> (§7), and the sensitivity / seeded-change results (§9, §10). Source layout: `vlib/runner.py` (tiers, shards, replay,
> evidence, known findings), `vlib/hyp.py` (Hypothesis driving, collect-then-continue, shrink budget), `vlib/vals.py`
> (value specs = §2.4), `vlib/refcodec.py` + `vlib/refpeer.py` (§2.3), `vlib/simkernel.py` + `vlib/pair.py` (§2.2),
> `vlib/servers.py` (real servers for C16/C17), `vlib/fuzz.py` + `vlib/fuzz_brine.py` (atheris campaign), `props/cNN.py`
> (one driver per property), `tools/` (manifest generator, sensitivity runner, seeded-change harvesting / re-validation).
> No source hook was needed in rpyc (`MANIFEST.hooks.source_commits` is empty); 19 `fix:` commits repair genuine defects
> the checks found (§3); 144 seeded changes from four rounds of independent sub-agents are kept under `seeded/` (§9).
"""
if "**Status (as built).**" not in s:
    s = s.replace("Conventions used below\n", STATUS + "\nConventions used below\n", 1)
else:
    # the block is the run of "> " lines that starts with the status marker
    s = re.sub(r"\n> \*\*Status \(as built\)\.\*\*[^\n]*\n(?:> [^\n]*\n)*", lambda _m: STATUS, s, count=1)

ASBUILT = {
    "C01": "Built as designed (`props/c01.py`). Two generators are mixed: the random grammar and a *constructive ping-pong* generator "
           "(a callee that received a callable as argument 0 calls it back, whose body crosses again, …) because the random grammar "
           "alone left 90 % of programs at depth 1; the evidence histogram reports depth, callbacks, exceptions crossing ≥ 2 hops. "
           "Configurations: default and public attributes (classic is exercised by C02/C03/C20). Classes are lent too (a class and its "
           "instances on one connection), and so are named tuples (which must arrive by reference although their base type is a tuple). "
           "The identity clause uses a harness-side peek (`Pair.resolve`) to map a proxy to its target. Programs whose reference run "
           "exceeds 100 nested frames are skipped before the real run (counted in the evidence).",
    "C02": "Built with a narrower but explicit world (`props/c02.py`): list, dict, set, bytearray, deque, generator/iterators (short and "
           "long), `io.BytesIO`, a class `Vec` with operators/properties/protocols, a subclass that inherits everything, and two distinct "
           "classes sharing module and name, a class whose `__eq__` is not reflexive, comparison of a proxy with itself, and a 2 600 item "
           "iterator consumed through `buffiter` with chunks larger than 1 000; no real temp file. Restrictions found necessary during calibration are listed in §7 "
           "(addresses in default reprs, identity hashes, frozenset iteration order, names the active policy denies, `__doc__` writes "
           "which netrefs keep local, `__class__` of classes the requester cannot import, a `bytes` left operand, names of the exposed twin "
           "that the policy renames). Constructive fragments on the harness objects: a state-dependent result (hash / len / str / bool / "
           "repr) asked twice on one proxy with a state change in between, and orderings that only the other operand's reflected "
           "method can answer. Two divergences are known findings, two were "
           "repaired (§3).",
    "C03": "Built as designed including the two-hop (A–B–C) variant (a value travels A→B→C and a mutation made on C is observed on A "
           "exactly when some hop passed it by reference). Every mutation step uses a fresh value, because repeating an identical mutation "
           "cannot be told from a lost one. `plain()` additionally treats an integer that the "
           "interpreter cannot render as text (beyond `sys.get_int_max_str_digits()`) as not plain, matching C04's wording.",
    "C04": "Built as designed. Encode cases additionally include integers around and beyond the interpreter's text-conversion limit; "
           "decode cases include every possible first tag byte (enumerated) and tripwires on `pickle.loads/load/Unpickler`, "
           "`marshal.loads`, `eval/exec/compile/__import__/open` besides the audit hook. The thorough tier runs two atheris campaigns "
           "(empty and seeded corpus, oracle inside the target, `vlib/fuzz_brine.py`); a crash file is re-judged by the same oracle "
           "outside the fuzzer before it counts. A further part changes the interpreter's int->text digit limit at run time "
           "(0 = unlimited, 640 … 9000) and re-asks the declared-set question for integers just below / at / above / twice the "
           "limit in force: 'can render as text' is a statement about the current setting, not the one at import time.",
    "C05": "Built as designed (`props/c05.py`), plus a few packets around and beyond one mebibyte (2^20-1 … 2^22+1, coarse fragments) and injected I/O faults that raise "
           "connection-class errors, other errnos (EHOSTUNREACH, ENETDOWN, ENOBUFS, EIO) or a timeout while writing; the kernel-socketpair part runs in both tiers (few cases in quick) with a watchdog that "
           "turns a reader waiting for bytes nobody sent into a reported failure instead of a hang.",
    "C06": "Built as designed; the grid turned out cheap enough (≈ 220 000 evaluations in ≈ 6 s) to be enumerated **completely in the "
           "quick tier as well**: 2⁷ switches × 4 prefixes × 17 name classes × 4 shapes × 7 operations (get, set, delete, call, and the "
           "indirect routes cmp / oldslicing / ctxexit). Hooks (every subset), `restricted()` views and Service instances are enumerated on "
           "a sample of configurations. Isolation histories use `VoidService` and `SlaveService` (not `ClassicService`, whose `on_connect` "
           "needs a peer). The end-to-end part also runs through a *forwarded* proxy (three parties: the owner lets the middle party do "
           "anything, the middle party pushes its proxy on over a connection with the generated configuration, which alone must decide).",
    "C07": "Built without the byte-level atheris campaign (structure-aware generation only). A second connection that allows custom "
           "exceptions is part of the grammar (the peer may then name any importable class; nothing may be imported or run for it beyond "
           "what C09 allows). Added beyond the design: a *policy-denial* "
           "oracle (every by-name request the default policy denies — decided by C06's reference function on the real target object — must "
           "be answered with an exception) and a constructive attack generator aiming every by-name route (cmp, callattr, getattr, setattr, "
           "delattr, oldslicing, pickle, ctxexit) at non-exposed names on identifiers that are really held; without it the CVE-style "
           "mutation (`_handle_cmp` without the policy check) was hit only ≈ 4 times per quick run. By-name requests are also sent with "
           "the *name* passed as a reference to an object of the peer's that claims a text class: they must be refused without the "
           "victim asking that object anything (only class-description and release traffic may go to the peer meanwhile).",
    "C08": "Built as designed plus a third part: a real client against a peer that duplicates responses, answers with another value or "
           "exception for an already answered sequence number, or invents sequence numbers (the response must go to its own request and "
           "to no other). Handler outcomes include `SystemExit`/`GeneratorExit`, an exception whose "
           "argument has a failing `repr()` and one carrying an integer too large to render as text.",
    "C09": "Built as designed. Custom-class cases additionally include a class whose bare name equals a built-in exception's; the "
           "sender's two 'route locally' switches are set for the class that is *not* being raised; hostile payloads also name an "
           "attribute that a loaded module imports on demand (module `__getattr__`) - this found the import repaired in 0ac3fca.",
    "C10": "Built with Hypothesis step lists instead of a `RuleBasedStateMachine` (same thing, simpler replay). Lendable objects are builtin "
           "lists only (no nested INSPECT while unboxing; that path is covered by C01 where it found a defect). `use` and `pass back` are "
           "issued asynchronously so that no step ever blocks; a constructive sub-generator guarantees crossings (evidence counts them). "
           "Added: a schedule part (preemption-bounded DFS at line granularity inside `RefCountingColl.add/decref`, `_box`, `_handle_del`) "
           "for 're-send races with the serving thread processing the release notice'. A third of the histories use the *inspect* "
           "variant: lendable objects are instances of fresh classes, so the holder must ask for each class's description the first "
           "time a reference arrives; a pump task then delivers packets FIFO while the holder waits, which makes the holder dispatch "
           "other requests *nested* inside the unboxing of the first (two proxies of one object being built at once). A further step "
           "fetches an object with an expiry that passes before the answer (a reference) is delivered: nobody will ever hold it, so the "
           "owner must not keep it.",
    "C11": "Built as designed plus a small real-socket part (a thread blocked in `serve()` on a loopback socket while another closes "
           "the connection) and `before_closed` hooks that succeed, fail locally or fail in a remote call (close() may then raise what "
           "the hook raised, but the side must end up closed, finalised once, with empty tables); the disconnect hook may take virtual "
           "time, so that other threads of that side run while it does. Specifics: faults are *incoming stream ends at byte k*, *outgoing write fails at byte k* and "
           "*poll fails at index i* (an I/O error and an end-of-stream are indistinguishable at the Stream contract; the difference is "
           "C05's); positions are every operation boundary and {1, middle, last} inside every read/write of a recorded clean run. The quick "
           "tier runs a fixed 1-in-5 stride plus every second write fault, the thorough tier all plans (≈ 4 100). `serve()`/`wait()` are "
           "deliberately not preemption points in the close-order part (that reproduces C14's known windows as hangs).",
    "C12": "Built as designed. The quick tier includes a bound-3 DFS of the [1,2]-message shape (frontier computed in `plan()`, "
           "sharded). The thorough tier's unbounded DFS of 2 threads × 1 message is complete: 1 785 660 line-level schedules.",
    "C13": "Built as designed (random preemption lists; DFS with bound 1 quick / 2 thorough on the smallest shape). A client thread may "
           "issue its request asynchronously and register a completion callback while the reply may already be on its way "
           "(`add_callback` is a preemption point): the callback must run exactly once with that request's value - this found the "
           "lost-callback race repaired in cf2c646.",
    "C14": "Built with **two** known windows instead of one (F4 and F4b, §3) and 1–2 callers. Classification is by the state in which the "
           "caller starts its last blocking wait (`blocked-between-receive-and-dispatch`, `blocked-after-reply-dispatched`); every schedule "
           "is also run with both windows closed by construction (receiver atomic from `recv()` to the end of dispatch; waiter atomic from "
           "its readiness test to its try-acquire of the receive lock; nobody preempted while holding the condition's lock), and there any "
           "stall is a VIOLATION regardless of classification. With a single caller, the caller may also be preempted between its "
           "failed try-acquire and its `wait()` while it owns the condition (a receiver that then *skips* the notification is caught; "
           "with two callers that preemption would reopen F4b and is therefore not taken in closed mode). `SimCondition` implements "
           "`wait_for`, `acquire` and `release` too, so changes that use those run instead of crashing the simulation. Serving threads "
           "come in three kinds (BgServingThread, a `serve()` loop, a `poll()` loop that never queues behind the receive lock), and a "
           "caller's completion callback may raise in whichever thread dispatches the reply.",
    "C15": "Built as designed for a single requester thread, plus a part in which another thread holds the receive lock while the "
           "timeout expires (the waiter must still give up at its deadline and the late reply must still land), and a part in which the "
           "requester keeps no reference to the result, only its callbacks (which must still run exactly once). Ties, negative timeouts and cases with a time-consuming unrelated handler are held to the universal clauses only "
           "(the evidence counts exact vs. universal-only comparisons).",
    "C16": "Built as designed on real sockets (`vlib/servers.py`); the forking server runs in a helper process. Added a *barrage* scenario "
           "(more failing clients than pool workers), a service whose disconnect hook takes 0.15 s (the next client arrives while the "
           "previous one is being cleaned up - this exposed a descriptor re-use defect of the thread-pool server, §3), a service whose "
           "constructor takes 0.1 s together with two well-behaved clients arriving at the same time, and an ownership oracle: the "
           "connection a client is served on carries that client's own endpoints and credentials (the authenticator hands out "
           "per-client credentials). Well-behaved clients lend a class (fresh per scenario) that the server calls back; an *impostor* "
           "client claims the same class name and identifier and describes it wrongly - what the server learns from it must stay on "
           "its own connection.",
    "C17": "Built as designed; the forking server is audited through its helper process (descriptor count of the parent). Added *flash* "
           "clients (connect and reset at once, several times), *close during accept* (a harness-side wrapper around the listener lets "
           "`close()` run to completion between the listener handing out a late client's connection and the accept loop seeing it; "
           "the late client must get end-of-stream and the closed server must hold nothing), and *coalesced child exits* for the "
           "forking server (the helper process blocks SIGCHLD, n clients leave, all n children are zombies, the signal is released "
           "once in the main thread: no exited child may remain in the process table). Histories run without authenticator, with one, "
           "and with one that returns a *new socket object* for the descriptor (what TLS wrapping does - this found that `close()` did "
           "not terminate such clients, repaired in b1fd72f); the pool server's poll object is observed through a wrapper, so "
           "descriptors of departed clients that stay registered count as leftovers.",
    "C18": "Built in-process over scripted sockets as designed, plus a real-loopback part (UDP and TCP registry servers on 127.0.0.1 "
           "with real clients) in both tiers with few cases; replies whose transmission fails with an OS error (message too long, "
           "network unreachable, …) are part of the histories.",
    "C19": "Built as designed (`props/c19.py`, `props/c19conv.py`). Text with lone surrogates is part of the value space since the "
           "reference codec encodes it the way the repaired brine does (generalised UTF-8, frozen vector `08 0c ed b3 a9`).",
    "C20": "Built as designed; names include leading/trailing blanks and tabs. The destination is compared at the moment the call "
           "returns (before anything else runs) and again at the end, and optionally the source files are rewritten (other bytes, same "
           "or half the size) and transferred a second time over the existing destination. File contents are random, all NUL, or carry a "
           "long leading / trailing run of NUL bytes; optionally every top-level file X has a sibling X.part / X.tmp / X~ / X.bak / X.swp.",
}
for pid, text in ASBUILT.items():
    marker = "*As built (%s).*" % pid
    if marker in s:
        s = re.sub(re.escape(marker) + r" .*$", lambda _m: marker + " " + text, s, count=1, flags=re.M)
        continue
    m = re.search(r"^### %s — .*$" % pid, s, re.M)
    if m:
        s = s[:m.end()] + "\n\n" + marker + " " + text + "\n" + s[m.end():]

# ---- §3 replaced by the real findings ------------------------------------------------------------------------------
kf = json.load(open(os.path.join(HOME, "known_findings.json")))["findings"]
rows = []
for f in kf:
    rows.append("| %s | %s | `%s` | %s |" % (f["property"], f["status"] + (" " + f.get("commit", "") if f["status"] == "fixed" else ""),
                                             f["signature"][:70], f["what"].replace("|", "/")[:420]))
NEW3 = """## 3. Findings on the pinned tree (what the checks found; `known_findings.json` is the authoritative list)

Every entry below was reported by a check as a VIOLATION with a shrunk replay file (the C09 on-demand import only after a
seeding sub-agent had pointed at it and the payload generator had been extended), triaged against the real code, and
then either repaired by one minimal unguarded `fix:` commit in /repo (the repository's 57 tests pass after each) or kept as a
known finding with a signature specific enough that a different violation of the same property still fails the check. The
expected findings F1–F10 of the design all materialised except that F4 turned out to be two windows (F4, F4b) and F10 was
repaired. Twelve further defects were not anticipated (C01 unboxing race, C04 huge integers, C11 concurrent cleanup, C16 pool
authentication, C16 pool descriptor re-use - found when a seeded change led to the slow-disconnect-hook scenario -, C17
`server.clients` leftover, forking children and clients behind a wrapping authenticator surviving `close()`, C02/C08 failing `repr()`, C02 `buffiter`, C02 `|` and `with`, C13 completion callback lost when registered during the dispatch, C09 on-demand import through a loaded module).

| property | status | signature | what fails |
|---|---|---|---|
""" + "\n".join(rows) + """

Why the known findings are not repaired: F4/F4b need the receive/dispatch hand-off of `serve()` redesigned (dispatching under the
lock breaks re-entrancy; upstream only mitigated it much later with thread binding); rebuilding an `ExceptionGroup` needs its
constructor arguments, which the property forbids running; the argument-less `StopIteration` encoding is a deliberate optimisation
of remote iteration (the repair keeps it only for instances without data); terminating a forking server's children needs child
bookkeeping (killing by remembered pid is unsafe under pid reuse); the `|` divergence comes from sharing one proxy class between
a builtin class and its instances; a faithful remote `__exit__` needs the exception to travel by value (a protocol change).

"""
a = s.index("## 3. Findings expected on the unchanged tree") if "## 3. Findings expected on the unchanged tree" in s else s.index("## 3. Findings on the pinned tree")
b = s.index("## 4. Per-property design")
s = s[:a] + NEW3 + "---------------------------------------------------------------------------------------------------\n\n" + s[b:]

# ---- §7 calibration log -----------------------------------------------------------------------------------------------
NEW7 = """## 7. Calibration log (false alarms corrected, oracle changes)

Harness defects found by running the checks on the unchanged tree at several seeds (none of these was a defect of rpyc; each
was corrected in the machinery, never by loosening a right oracle):

* **simkernel**: `SimCondition.wait` removed its token with `list.remove` (equality): `[False] == [False]` removed *another*
  waiter's token, producing a fake lost wake-up in C14 → identity-based removal. `run()` never ended while daemon tasks were
  runnable → a run is complete when every non-daemon task is done. A busy loop at constant virtual time (seen with a mutated
  `Timeout.expired`) spun for minutes → livelock detector (20 000 consecutive yields of one task without time advance).
  Writes during teardown raised inside `__del__` → they are dropped during abort.
* **C01**: `callable(proxy)` is true for every proxy of a builtin instance (their class carries `type.__call__`) → objects are
  classified by `__class__`; reading `__name__` of a class proxy is denied by the default policy → not read; one class object
  shared by both simulated peers has no single owner → excluded from the identity clause.
  A thorough-tier alarm (`outcome:class`) came from programs deep enough that the harness's own depth guard fired on one side
  only → the guard is lower (100 frames) and a program that trips it in the reference run is skipped, not compared.
* **C02**: see the As-built paragraph; additionally `iter()` of a `__getitem__`-only object is a *local* iterator on both sides.
  In-place multiplication steps could grow a list until the run took minutes → multipliers are clamped (the thorough tier had
  reported a time-out as a difference).
* **C03** (seed 7): a history that applied the *same* mutation twice looked like a lost change on the by-reference side → each
  mutation step writes a value not used before in that history.
* **C03/C09**: values compared through `repr` must not contain addresses (fresh objects per run) → stable reprs; `OSError(2, …)`
  constructs a `FileNotFoundError` → the expected class is the class of the constructed object.
* **C06**: the old-slicing route swallows the first failure by design and retries with the fallback name → a non-text name there
  is held to "some exception, no effect", not to `TypeError`.
* **C07**: importing a harness module while `builtins.exec` was armed tripped the tripwire → imports moved to module level.
* **C08**: release notices still in flight when a stream ends are not "unanswered requests".
* **C10**: a recursive closure in the harness's service formed a reference cycle that kept proxies alive with gc disabled.
* **C11**: `A.close()` was asserted although the workload had returned before calling it (a C14 stall made `conn.root` time out);
  byte totals differ between processes, so fault plans are derived and run in the same process.
* **C15**: an operation at the very instant a packet arrives is scheduler-defined → replies are generated off those instants
  and exact coincidences are held to the universal clauses only.
* **C16/C17**: the forking server copies the token counter into every child → tokens carry the pid; `ForkingServer.close()` must run
  in the helper's main thread (signal handler); a unix listener has no accept timeout; orphaned helper processes kept the
  runner's output pipe open → helpers die with their parent (`PR_SET_PDEATHSIG`) and write to /dev/null; workers of the runner's
  pool are non-daemonic so that they may start the helper.
* **C18**: the order of `on_service_removed` calls across *different* names within one unregister is unspecified → notification
  sequences are compared per (name, address); what a hostile host registers for itself is its own business.
* **C19 conversations**: `proxy.name(...)` is GETATTR + CALL (not CALLATTR) because `__getattribute__` intercepts every name → the
  reference server models bound methods as references.
* **Generators measured, not assumed**: `st.text` over a mixed alphabet produced a lone surrogate in ≈ 0.1 % of texts, so the
  class `str:lone-surrogate` was all but empty and three seeded changes in the text codec went unnoticed → lone surrogates are
  now built by construction (≈ 13 % of encode cases). C06's first forwarded-proxy part judged only 59 of 300 cases (the victim
  was not obtainable under most generated configurations) and none on a tree where the lookup failed → the proxy is now
  *pushed* to the requester and the evidence counts judged decisions. The first version also let the owner apply its own twin
  mapping, which the oracle took for the middle party's decision (false alarm) → the owner resolves names literally.
* **C10 inspect variant**: the pump task kept virtual time advancing after the driver had finished (step limit reported as a
  deadlock) → the driver stops the pump. **C14**: a raising callback registered after the reply had been dispatched raises at
  `add_callback`, and a caller that serves other callers' replies may see several such errors → both handled in the harness.
* **C17**: the late client of the close-during-accept scenario could lose the race against connections still queued in the
  listener (flash clients) or against an accept() already in progress → a throw-away round trip drains the queue, the wrapper
  reports when the accept loop is inside it, and a refused late connect is counted as inconclusive; a unix listener has no
  accept timeout → TCP only. Releasing SIGCHLD in the helper's control thread never interrupted the main thread's `accept()`
  → the mask is lifted in the main thread (poked with SIGUSR1). With a wrapping authenticator a connected client has two entries
  in `server.clients` (one detached) → the audit counts live socket objects.
* **Seeded-change runs**: two matrices running at once cleared each other's `out/<ID>/` and produced spurious "missed" entries →
  the final matrix ran alone. A seeded change that used `Condition.wait_for` was "detected" only because the simulated
  condition lacked that method → implemented, and the change is now caught for the right reason.
* **Runner**: Hypothesis has no shrink budget → after a failure is known, at most 400 further oracle evaluations are spent on
  shrinking (then the best failing case so far is replayed and reported); replay files of earlier runs are deleted at the start
  of a run.
* **Round 5**: the C07 coverage-guided target executed 300 inputs in a second and found nothing new - Hypothesis's byte front end
  never decoded `fixed_dictionaries` with four or more keys, and an empty corpus never grows to a decodable length → the same grammar
  drawn as a tuple (`fuzz_cases`) and a corpus of eight pseudo-random 3 000-byte blobs. The C07 fragment "permitted access, then a
  denied one of the same name" appeared in 8 of 300 histories when offered as one alternative among the messages → spliced in by
  construction (332 of 1 200). C20's slow-read fault first reported `transfer-raised:TimeoutError` on the clean tree:
  `AsyncResultTimeout` IS the builtin `TimeoutError`, the harness had compared class names → compares the class. C02's new
  StopIteration-subclass step was never generated within the quick budget (one of eight methods on three of eighteen slots) →
  constructive fragment. Five seeded matrices started at once (isolated `vp run` snapshots) reported nine changes as missed that
  are caught when run alone: `tools/seeded_run.py` used `git stash` to run the demonstration on the clean tree, and the stash ref is
  shared by all worktrees of one repository, so the runs popped each other's patches → it now saves `git diff` to a file in its
  own worktree and re-applies that; the nine were re-run one at a time.

"""
a = s.index("## 7. Calibration log")
b = s.index("## 8. Build order")
s = s[:a] + NEW7 + s[b:]

# ---- §9 / §10 ----------------------------------------------------------------------------------------------------------
if "## 9. Seeded changes" in s:
    s = s[:s.index("## 9. Seeded changes")]
seeded = os.path.join(HOME, "seeded")
rows = []
for n in sorted(os.listdir(seeded)):
    mp = os.path.join(seeded, n, "meta.json")
    if not os.path.exists(mp):
        continue
    m = json.load(open(mp))
    det = m.get("detected_by")
    if isinstance(det, dict):
        det_s = "; ".join("%s: %s" % (k, v[:80]) for k, v in det.items())
    else:
        det_s = "(not run yet)"
    needs = m.get("needs_to_manifest", "")[:160].replace("|", "/").replace("\n", " ")
    st = "superseded by a repair" if str(m.get("status", "")).startswith("superseded") else m.get("apply_on_head", "")
    rows.append("| %s | %s | %s | %s |" % (n, st, needs, det_s.replace("|", "/")))
REASONS = {
    "C15-m7": "makes a NEGATIVE timeout expire at once instead of never; the statement does not say what a negative timeout means "
              "(the pinned code treats it as 'no expiry', the documentation reads 'seconds relative to now'), so C15 holds negative "
              "timeouts to the universal clauses only and does not call either behaviour a violation",
    "C15-m8": "needs a preemption INSIDE one source line of add_callback (between loading the list attribute and calling append); "
              "the simulation kernel preempts at line granularity (stated assumption of C13)",
    "C20-m10": "pipelines the upload's writes; the copy differs only when the PEER serves the one connection from several threads and "
               "handles two in-flight writes out of order; C20's harness peer serves from one task (the statement quantifies over trees, "
               "sizes, chunks and filters), and C13's concurrent requests observe replies, not the order of side effects at the peer",
    "C09-m5": "needs two threads serving two failing requests on ONE connection at the same time (the shared traceback slot); C09's "
              "generated cases are single-threaded on the serving side and C13's concurrent clients never fail remotely",
}
missed_names = []
for n in sorted(os.listdir(seeded)):
    mp = os.path.join(seeded, n, "meta.json")
    if not os.path.exists(mp):
        continue
    m = json.load(open(mp))
    det = m.get("detected_by")
    if str(m.get("status", "")).startswith("superseded") or not isinstance(det, dict):
        continue
    if not any(str(v).startswith("DETECTED") for v in det.values()):
        missed_names.append(n)
_own = _cross = 0
_cross_names = []
for n in sorted(os.listdir(seeded)):
    mp = os.path.join(seeded, n, "meta.json")
    if not os.path.exists(mp):
        continue
    m = json.load(open(mp))
    det = m.get("detected_by")
    if str(m.get("status", "")).startswith("superseded") or not isinstance(det, dict):
        continue
    if str(det.get(m["property"], "")).startswith("DETECTED"):
        _own += 1
    elif any(str(v).startswith("DETECTED") for v in det.values()):
        _cross += 1
        _cross_names.append("%s (%s)" % (n, ", ".join(k for k, v in det.items() if str(v).startswith("DETECTED"))))
SUMMARY = ("Result on the final tree: of %d live changes, %d are reported by the quick tier of their own property's check and %d "
           "only by a neighbouring property's check: %s. " % (_own + _cross + len(missed_names), _own, _cross, "; ".join(_cross_names)))
NOT_CAUGHT = (SUMMARY + "Not caught by any check (stated limits of the machinery, not equivalences): " +
              ("; ".join("`%s` - %s" % (n, REASONS.get(n, "see its notes.md")) for n in missed_names) if missed_names else "none") +
              ". Two round-1 changes (`C11-m1`, `C17-m2`) no longer break their property after a repair made the tree tolerant of them.")
s += """## 9. Seeded changes (independent sub-agents) and which checks catch them

160 changes were written by fresh sub-agents that saw only one property's text and a scratch worktree: round 1 two per property
(`m1`, `m2`), rounds 2 and 3 two more each (`m3`/`m4`, `m5`/`m6`), round 4 (`m7`/`m8`) for twelve properties and round 5 (`m9`/`m10`) for the other eight, by new sub-agents that were additionally given a one-line list of
the *ideas* already used for that property (no code, nothing from /verif) so that they would look elsewhere. Each was confirmed by me (demo fails with the patch, passes without, the repository's 57 tests still pass with it) before being kept
under `seeded/<ID>-m<i>/`; `tools/seeded_run.py` re-validates all of them against the current /repo HEAD (fifteen patches were
rebased (3-way or by hand) after repairs changed their context - originals kept as `patch.orig.diff`; two no longer break the property
because a repair made the tree tolerant of them) and runs the property's own check plus related ones against a scratch worktree (`VERIF_REPO`), never against /repo.

| change | applies to HEAD | needs, in order to manifest | quick-tier result |
|---|---|---|---|
""" + "\n".join(rows) + """

Detections by the real-socket checks (C16, C17) depend on real time: `C16-m3` (a descriptor number re-used while the previous
connection is still being finalised) was reported in five of six runs and missed once while a thorough-tier run was using all
cores; the quick tier of those checks should be run on an otherwise idle machine. A change counts as caught when *some* registered check reports it in its quick tier (a change written against one property
often breaks a neighbouring one first; the result column shows which). Checks strengthened because a seeded change was missed
at first (each time by widening the generator or adding an oracle the property's text supports, never by special-casing the
change): C01 named tuples / class arguments; C02 non-reflexive `__eq__`, self comparison, long `buffiter` chunks, state-dependent
results asked twice, reflected ordering; C03 two-hop, `deliver`; C04 run-time integer limit, lone surrogates; C05 short writes,
kernel socketpair, packets beyond a mebibyte; C06 forwarded proxies; C07 second connection with custom exceptions, identifier
harvesting, names passed by reference; C08 huge-integer and unprintable exceptions; C10 inspect variant with nested dispatch;
C11 real-socket close, same-side overlapping close, `before_closed` hooks; C12 bound-3 DFS in quick; C13 DFS, completion
callbacks; C14 single-caller preemption before `wait()`, poll() receivers, raising callbacks; C15 held receive lock; C16 slow
hooks, simultaneous clients, per-client configuration; C17 close during accept, coalesced child exits, wrapping authenticator,
poll registrations; C18 real loopback, notification order, failing reply transmission; C19 lone surrogates; C20 snapshots at
return, second transfer, NUL contents, sibling temp names; round 4 added C05 error kinds, C09 route-locally switches, C10 late
fetch, C11 yielding hook, C15 unretained results, C16 impostor class; round 5 added C02 tuple-subclass targets/results and a data-less StopIteration subclass, C04 concurrent encoders, C07 permitted-then-denied access of one name (and the coverage-guided campaign), C18 tuple-shaped commands, C20 a remote read that outlasts the request timeout. Four of these extensions exposed genuine defects of the
pinned tree (pool descriptor re-use, `close()` with a wrapping authenticator, lost completion callback, on-demand import while
loading an exception), all repaired (§3).

""" + NOT_CAUGHT + """
## 10. Sensitivity runs with deliberate breakages

`tools/mutations.py` lists ≈ 190 single-site breakages (all compile; most pass the repository's tests); `tools/sens.py` applies
each to a scratch worktree and runs the named checks through `VERIF_REPO`. Every check was required to (a) stay quiet on the
unchanged tree at ≥ 3 seeds in fresh processes and (b) report the breakages aimed at it within its quick budget. Breakages that a
check did not report were examined one by one; they fall into: *equivalent under the property* (e.g. `imm-range-shift` is
lossless and only C19 must see it; `serve-all-no-finally-close` after the `serve()` repair; `cleanup-guard-inverted`, whose guard is
never consulted), *another property's business* (`callback-get-not-pop` → C08's duplicate-response part; `cond-wait-no-timeout` →
multi-thread only), or *generator too thin* — in which case the generator was strengthened (C04 all first tags + tripwires, C07
attack generator and policy oracle, C09 str≠repr arguments and shadowing class names, C10 race schedules, C11 loop-server/no-timeout
workload and same-side overlapping close, C14 second caller, C16 barrage, C17 flash clients and forking parent audit, C18
refresh-order construction, C20 blank-padded names, C02 inherited methods / long iterables / same-named classes / plain+exposed twin).
"""
open(P, "w").write(s)
print("DESIGN.md updated: %d bytes" % len(s))
