#!/usr/bin/env python3
"""Regenerates MANIFEST.json from the table below (single source of truth for what is claimed)."""
import importlib
import json
import os
import sys

HOME = os.path.dirname(os.path.dirname(os.path.abspath(__file__)))
sys.path.insert(0, HOME)

ALL = ["C%02d" % i for i in range(1, 21)]

# id -> (category, technique, level text, level note, design ref)
CLAIMS = {}


def claim(pid, category, technique, text, note, ref):
    CLAIMS[pid] = dict(category=category, technique=technique, text=text, note=note, ref=ref)


claim("C04", "exploration",
      "property-based testing (Hypothesis): round-trip + accept/reject oracle over per-wire-class constructed values; "
      "byte-mutation fuzzing of the decoder with an audit-hook oracle (atheris campaign in the thorough tier); "
      "concurrent encoders in threads compared with the sequential encoding of the same value",
      "Generated-input search with an explicit oracle: every value class the statement lists is a named generator "
      "bucket, the round trip is compared type-exact and bit-exact, dumpable() is compared with an independent "
      "transcription of the statement, and decoding arbitrary bytes is watched by a CPython audit hook. It samples, "
      "it does not prove absence.",
      "CPython audit events are the observation of 'imports/executes'; value classes as listed in DESIGN.md §4 C04.",
      "DESIGN.md §4 C04")

claim("C19", "exploration",
      "differential property-based testing against an independently written reference codec/peer (byte-exact, strict "
      "shortest-form decoding), literal constant table, frozen byte vectors",
      "Generated values, packets and conversations are run through the real implementation and through a reference "
      "implementation written from the published format with literal numbers; any byte-level or semantic disagreement in "
      "either direction is a violation. Self-consistent renumberings that the repository's tests cannot see are caught "
      "because the reference does not import rpyc.",
      "The reference codec is the specification (vlib/refcodec.py), guarded by frozen vectors.",
      "DESIGN.md §4 C19")
claim("C12", "exploration",
      "schedule fuzzing under a deterministic cooperative scheduler (line-level preemption in Connection._send): "
      "Hypothesis-generated preemption lists + stateless DFS enumeration of 2-thread interleavings; invariant oracle over "
      "the transmission log",
      "Interleavings are explicit generated values executed on the real _send code with simulated locks; the oracle is an "
      "invariant over the recorded transmission log (exactly-once, contiguous, per-thread order, empty queue, no "
      "deadlock). The thorough tier enumerates every line-level interleaving of 2 threads x 1 message; everything else is "
      "preemption-bounded sampling.",
      "Preemption only at source-line boundaries of _send and at 3 points of the transport write; list.append/pop(0) "
      "atomic; SimLock mirrors threading.Lock.",
      "DESIGN.md §4 C12")

claim("C14", "exploration",
      "schedule fuzzing + preemption-bounded DFS under a deterministic scheduler with a virtual clock; latency oracle "
      "(return time == dispatch time); known-finding windows excluded by construction and counted",
      "Interleavings of a waiting caller (1-2 of them) and a serving thread are generated values executed on the real "
      "serve()/wait() code; because the virtual clock only moves when every thread is blocked, 'returned later than its "
      "reply was dispatched' is an exact, deterministic observation. The two stall windows that exist in the pinned "
      "tree (known findings F4/F4b) are reported as KNOWN-FINDING, then made atomic in the scheduler so that any other "
      "stall shape is still a VIOLATION.",
      "Line-granularity preemption in serve/wait/_bg_server; SimCondition/SimLock mirror threading; one scripted peer.",
      "DESIGN.md §4 C14")
claim("C13", "exploration",
      "schedule fuzzing + preemption-bounded DFS under a deterministic scheduler; invariant oracle (own token, distinct "
      "sequence numbers, dispatch-once ledger, deadlock and lost-wake-up detectors)",
      "2-3 client threads and an optional background serving thread share one real Connection against a scripted raw "
      "peer that answers in generated orders and injects its own requests; preemption points are the source lines of "
      "the serving, sending, correlation and result-publication code. Sampling with bounded preemptions, not exhaustive.",
      "Line-granularity preemption; itertools.count atomic; simulated primitives mirror threading.",
      "DESIGN.md §4 C13")

claim("C01", "exploration",
      "grammar-based program generation (Hypothesis) + reference-model differential: the same call tree interpreted in one "
      "process vs across a real connection pair; invocation counters, argument ledgers, identity checks",
      "Call trees with nested callbacks, exceptions raised and caught at different levels and every argument shape are "
      "generated (a constructive ping-pong generator reaches depth 7); the oracle is the same interpreter run in one "
      "process. Exactly-once is observed by counters kept outside both interpreters.",
      "Both peers share one Python process (deterministic cooperative scheduling, in-memory transport under the real "
      "Channel); exception payload details beyond class and plain args belong to C09.",
      "DESIGN.md §4 C01")

claim("C03", "exploration",
      "property-based testing (Hypothesis): per-class constructed values and send/echo/drop/re-send histories against a "
      "model; oracle written from the statement (plain() predicate, identity by `is`)",
      "Values of every immutable shape and every kind of non-plain object (subclass instances, containers, functions, "
      "classes, modules, buried in tuples and kwargs) are sent across a real connection pair and the receiving side "
      "reports what it got; histories check proxy identity and echo identity against a slot model; obtain/deliver are "
      "checked for equality and independence under classic services.",
      "plain() is an independent transcription of the statement; two-hop chains are not generated.",
      "DESIGN.md §4 C03")

claim("C09", "exploration",
      "property-based testing (Hypothesis) over every run-time builtin exception class x per-class argument strategies x "
      "16 switch settings, custom classes in imported / importable / unknown modules, and hostile payload fuzzing of the "
      "receiver; statement-derived oracle with import audit hook and constructor canaries",
      "Exceptions are raised inside a real handler and caught at a real requester; class, except-clause behaviour, "
      "arguments, public data attributes, absence of private ones and traceback/version disclosure are compared with "
      "what the statement prescribes; crafted records and arbitrary serializable values are fed to the receiver with "
      "canaries on imports, constructors and os.system.",
      "One interpreter hosts both peers; 'not yet imported' is simulated by a class naming an importable module.",
      "DESIGN.md §4 C09")

claim("C06", "exploration",
      "exhaustive enumeration of the stated decision grid (2^7 switches x 4 prefixes x 17 name classes x 4 object shapes x "
      "7 operations) against a decision function transcribed from the statement, observed by effect; Hypothesis samples "
      "end-to-end through netrefs; Hypothesis histories for cross-connection isolation",
      "The finite grid named in the property is enumerated completely in both tiers (evidence sets exhaustive for it) "
      "through the real handler table; effects are observed with per-slot sentinels and full state snapshots. "
      "Objects with their own hooks (every subset), restricted() views and Service instances are enumerated on a "
      "sample of configurations; isolation between connections is a generated-history check.",
      "Names outside the 17 classes and prefixes outside the 4 are not covered; hasattr() on a twin property is not an effect.",
      "DESIGN.md §4 C06")

claim("C20", "exploration",
      "property-based testing (Hypothesis): generated directory trees with file sizes bucketed around multiples of the "
      "chunk size, chunk sizes, filters and directions; recursive byte-for-byte comparison against the filtered source; "
      "one injected fault (a remote read that outlasts the request timeout: reported failure or exact copy)",
      "Trees, chunk sizes and filters are generated with the boundary cases the statement lists as named buckets; the "
      "oracle is the source tree minus what the filter rejects, compared path by path and byte by byte after a real "
      "upload/download over a classic connection pair.",
      "Both peers share one filesystem; names never contain '/' or NUL.",
      "DESIGN.md §4 C20")

claim("C08", "exploration",
      "property-based testing (Hypothesis) of request streams with a frame-ledger oracle: generated sync/async/nested "
      "request mixes with every handler outcome kind from a real client, and raw requests with undecodable arguments and "
      "arbitrary sequence numbers from a reference peer; ledger decoded by the independent codec",
      "Every byte written by either side is recorded by the in-memory transport and decoded with the reference codec; the "
      "oracle is exactly-one-response-per-request with matching sequence numbers, handler-invocation counters, per-request "
      "tokens at the real client, and a ping after every failing request.",
      "Release notices (HANDLE_DEL) still in flight when a stream ends are not counted as unanswered; HANDLE_CLOSE excluded.",
      "DESIGN.md §4 C08")

claim("C10", "exploration",
      "model-based history testing (Hypothesis) over a held-mode link where delivery of each one-way stream is an explicit "
      "step; invariants over the owner's table after every step; plus preemption-bounded DFS of the re-send vs. "
      "release-notice race at line granularity inside the reference-counting collection",
      "The relative order in which the two one-way message streams are consumed is generated data (nothing is delivered "
      "until the history says so), so a release notice crossing a fresh reference is constructed rather than hoped for "
      "(the evidence counts crossings). Invariants: alive while held or in flight, gone when drained and dropped, identity "
      "on pass-back, empty after close.",
      "Lendable objects are builtin lists (no nested INSPECT); CPython refcounting finalises dropped proxies immediately.",
      "DESIGN.md §4 C10")

claim("C15", "exploration",
      "model-based testing in virtual time (Hypothesis): generated timed event lists against a reference state machine "
      "written from the statement; exact virtual-time comparison of when wait/value return or raise; callback log",
      "Timeouts, reply times (incl. +-epsilon around the expiry and exact ties), query and wait operations and callback "
      "registrations are generated as timed event lists and executed on the real AsyncResult/Connection over a scripted "
      "peer under a virtual clock, so 'at the expiry instant, never earlier' is compared exactly. Ties, negative timeouts "
      "and handler-time shifts are held only to the universal clauses (finality, callbacks once).",
      "Single requester thread (multi-thread hand-off is C13/C14); virtual clock advances only when all threads block.",
      "DESIGN.md §4 C15")

claim("C11", "fault_enumeration",
      "fault-point enumeration over a recorded clean run (every transport operation and byte offsets inside packets, both "
      "sides) + Hypothesis-generated close orders and interleavings, executed on the real Connection code over a "
      "fault-injecting in-memory transport under a deterministic scheduler; invariant oracle at quiescence",
      "For each workload variant a clean run numbers every read/write/poll of both streams; the thorough tier then runs "
      "every plan (evidence: exhaustive over that workload family), the quick tier a fixed 1-in-5 stride plus all "
      "write faults. Close orders (either side first, both at once, during an outstanding request, twice, two threads on "
      "one side) are generated with line-level interleavings inside close/_cleanup. Hangs are detected as deadlocks by "
      "the scheduler, not by timers.",
      "Stream-level faults only (real socket/pipe error paths are C05); serve()/wait() are not preemption points here "
      "because that reproduces C14's known stall windows.",
      "DESIGN.md §4 C11")

claim("C05", "exploration",
      "property-based testing (Hypothesis) with fault injection: the real SocketStream/PipeStream and Channel driven over a "
      "scripted fake socket / os shim (generated fragment lengths, transient timeouts/EAGAIN, end-of-stream or I/O error at "
      "a generated byte offset) and, sampled, over a kernel socketpair with tiny buffers; sent-vs-received oracle",
      "Packet sizes are drawn from named buckets around every boundary in the code (compression threshold, I/O chunk, "
      "three-write path); every recv/send moves a generated number of bytes; faults land at generated offsets incl. every "
      "position of the first header. The oracle is exact: same packets in order, prefix-then-EOFError on a fault, closed "
      "stream afterwards; the wire is also parsed by the independent frame parser.",
      "The fake socket is a blocking socket with timeout semantics; Win32 streams are not exercised.",
      "DESIGN.md §4 C05")

claim("C18", "exploration",
      "model-based history testing (Hypothesis) with malformed-request fuzzing: the real registry server objects run "
      "their real receive/dispatch/command code over a scripted socket and a virtual clock against a reference map and "
      "notification log",
      "Histories of register / unregister / query / clock advance from several hosts, interleaved with a grammar of "
      "malformed requests (incl. non-text command, silent TCP client), are executed one loop pass per step; the oracle "
      "is a reference membership map with pruning, the per-(name, address) notification sequences, loop survival and "
      "non-interference with other hosts' entries.",
      "Scripted sockets stand in for the network (the TCP client behaviours are modelled); ties in refresh time may come "
      "in any order.",
      "DESIGN.md §4 C18")

claim("C07", "exploration",
      "structure-aware protocol fuzzing (Hypothesis) from a raw reference peer with identifier harvesting, against a real "
      "default-configuration Connection; oracle = canaries, provenance audit of every unboxed object, pickle / eval / "
      "os.system tripwires, import canary, policy-denial check per by-name request, containment of a second connection; "
      "plus a coverage-guided campaign (atheris/libFuzzer bytes decoded into histories by Hypothesis's fuzz_one_input over the same "
      "grammar, the same oracle inside the target, artifacts re-judged outside the fuzzer)",
      "The generator is a grammar over the protocol (all message kinds, all 20 handlers with well-typed and ill-typed "
      "arguments, every boxing label) that indexes into identifiers disclosed by earlier replies, taken from another "
      "connection, released, or forged from real addresses, so deep states are reached by construction. Security "
      "properties are sampled, never proven.",
      "Operations the protocol grants on any held reference (call, repr, str, hash, dir, inspect, instancecheck, buffiter) "
      "are not canaries; resource exhaustion is out of scope; the coverage-guided campaign explores the grammar's choice sequences, not raw packet bytes (those are C04's and C05's domain).",
      "DESIGN.md §4 C07")

claim("C16", "exploration",
      "scenario fuzzing (Hypothesis) of real servers over real sockets: generated interleavings of well-behaved clients and "
      "hostile clients built from a byte-level grammar (framing, compression, authentication, abrupt / half close, foreign "
      "object ids); invariant oracle on what every good client observes and on continued accepting",
      "Threaded, thread-pool (4 workers) and forking servers run for real on TCP loopback and unix sockets with and "
      "without an authenticator; after every hostile client a fresh good client must connect and complete a call, and "
      "good clients keep seeing their own service instance, state and references. Scheduling is the operating system's; "
      "oracles state only schedule-independent facts and a liveness miss is confirmed in isolation before it counts.",
      "Real time appears only as a 10 s liveness bound; gevent server not exercised; hold-open hostile clients are limited "
      "to fewer than the pool size.",
      "DESIGN.md §4 C16")

claim("C17", "exploration",
      "history fuzzing (Hypothesis) of real servers over real sockets: generated connect / call / graceful or abrupt leave "
      "histories with server.close() at a generated point; oracle on what every connected client observes, disconnect "
      "hooks, server tables and the process's open descriptors",
      "Threaded, thread-pool, one-shot and forking servers run for real on TCP loopback and unix sockets. After close() "
      "every connected client must see end-of-stream within a generous bound, hooks must have run once, a second close() "
      "must be silent; at audit points the server's tables and /proc/self/fd must hold nothing for departed clients.",
      "OS scheduling; liveness-type observations are re-confirmed in isolation; descriptor / table audits not for the "
      "forking server (other process).",
      "DESIGN.md §4 C17")

claim("C02", "exploration",
      "model-based history testing (Hypothesis): generated operation histories applied to proxies and to a local twin world; "
      "per-step outcome / result comparison and full canonical state snapshots of every target",
      "The operation table is derived from what netrefs forward (attributes, methods by name, operators in both orders, "
      "in-place and unary operators, comparisons, indexing and slicing, iteration plain and buffered, len/str/repr/hash/"
      "bool/dir/format, isinstance/__class__, call, with-blocks), over builtin containers, generators, files and harness "
      "classes incl. inherited methods and two same-named classes, under three configurations. Every mismatch found on "
      "the pinned tree was triaged into a repair, a known finding, or a documented harness restriction (DESIGN.md §7).",
      "Identity-dependent observables (default repr addresses, identity hashes, set iteration order) are normalised; "
      "names the active policy denies are not generated; type(p)/id(p)/`is` are outside the property.",
      "DESIGN.md §4 C02")

NOT_YET = "check not built yet in this revision (see DESIGN.md §8 build order)"


def main():
    checks = []
    for pid in ALL:
        if pid not in CLAIMS:
            continue
        c = CLAIMS[pid]
        checks.append({
            "property_id": pid,
            "quick_cmd": "./check %s --tier quick" % pid,
            "thorough_cmd": "./check %s --tier thorough" % pid,
            "evidence_file": "evidence/%s.json" % pid,
            "replay_cmd_template": "./check %s --replay {path}" % pid,
            "engine": "vlib",
            "level_claimed": {"category": c["category"], "text": c["text"], "design_ref": c["ref"]},
            "level_note": c["note"],
            "technique": c["technique"],
        })
    na = [{"property_id": pid, "reason": NOT_YET} for pid in ALL if pid not in CLAIMS]
    man = {
        "version": 1,
        "setup_cmd": "sh ./setup.sh",
        "hooks": {
            "guard": "RPYC_VERIF",
            "enable": "no source hooks are needed: checks import /repo's working tree directly (PYTHONPATH) and "
                      "patch module globals from the harness",
            "baseline_off_cmd": "cd /repo && /venv/bin/python -m pytest -ra -q -p no:cacheprovider --timeout=900 "
                                "--continue-on-collection-errors",
            "source_commits": [],
            "add_only": True,
        },
        "engines": [
            {"name": "vlib", "path": "vlib/", "serves_properties": sorted(CLAIMS),
             "kind_free_text": "Hypothesis-driven property-based testing / fuzzing harness: generators of value specs, "
                               "histories, schedules and fault plans; an independent reference codec; a deterministic "
                               "cooperative scheduler with virtual clock and in-memory transport (simkernel)"},
        ],
        "checks": checks,
        "not_applicable": na,
        "notes": "All checks: ./check <ID> --tier quick|thorough; VERIF_SEED selects the Hypothesis seed; "
                 "VERIF_REPO overrides the tree under test (default /repo). Exit 0 held / 1 VIOLATION / 2 harness error.",
    }
    with open(os.path.join(HOME, "MANIFEST.json"), "w") as f:
        json.dump(man, f, indent=1)
        f.write("\n")
    try:
        import jsonschema
        jsonschema.validate(man, json.load(open("/root/.vp/MANIFEST.schema.json")))
        print("MANIFEST.json valid (%d checks, %d not_applicable)" % (len(checks), len(na)))
    except ImportError:
        print("MANIFEST.json written (jsonschema unavailable)")


if __name__ == "__main__":
    main()
