"""Deliberate breakages used for the sensitivity runs (tools/sens.py). Each is (name, checks, file, old, new);
old must occur exactly once in the file.  All of them compile; most pass the repository's 57 tests."""

B = "rpyc/core/brine.py"
CH = "rpyc/core/channel.py"
P = "rpyc/core/protocol.py"
CO = "rpyc/core/consts.py"

MUTATIONS = [
    # ---- C04 / C19: brine
    ("brine-float-single-precision", ["C04", "C19"], B, 'F8 = Struct("!d")', 'F8 = Struct("!f")'),
    ("brine-l1-boundary-256", ["C04", "C19"], B,
     "    elif lenobj < 256:\n        stream.append(TAG_STR_L1", "    elif lenobj <= 256:\n        stream.append(TAG_STR_L1"),
    ("brine-int-l1-boundary", ["C04", "C19"], B,
     "        if lenobj < 256:\n            stream.append(TAG_INT_L1", "        if lenobj <= 256:\n            stream.append(TAG_INT_L1"),
    ("brine-complex-swapped-on-load", ["C04", "C19"], B, "return complex(real, imag)", "return complex(imag, real)"),
    ("brine-dumpable-isinstance", ["C04", "C03"], B, "    if type(obj) in simple_types:\n        return True",
     "    if isinstance(obj, tuple(simple_types)):\n        return True"),
    ("brine-undumpable-valueerror", ["C04"], B, 'raise TypeError("cannot dump %r" % (obj,))',
     'raise ValueError("cannot dump %r" % (obj,))'),
    ("brine-imm-range-shift", ["C04", "C19"], B, "for i in range(-0x30, 0xa0))", "for i in range(-0x2f, 0xa1))"),
    ("brine-fset-loaded-as-set", ["C04"], B, "return frozenset(_load(stream))", "return set(_load(stream))"),
    ("brine-slice-step-dropped", ["C04", "C19"], B, "return slice(start, stop, step)", "return slice(start, stop, None)"),
    ("brine-tags-swapped-both-ways", ["C19"], B, 'TAG_FLOAT = b"\\x18"\nTAG_SLICE = b"\\x19"',
     'TAG_FLOAT = b"\\x19"\nTAG_SLICE = b"\\x18"'),
    ("brine-imm-base-0x60", ["C19"], B, "bytes([i + 0x50])", "bytes([(i + 0x60) % 256])"),
    ("brine-tup-l1-boundary-255", ["C19", "C04"], B,
     "    elif lenobj < 256:\n        stream.append(TAG_TUP_L1", "    elif lenobj < 255:\n        stream.append(TAG_TUP_L1"),
    ("brine-str-always-l1", ["C19"], B, "    elif lenobj == 4:\n        stream.append(TAG_STR4 + obj)",
     "    elif lenobj == 4:\n        stream.append(TAG_STR_L1 + I1.pack(lenobj) + obj)"),
    ("brine-load-evals-unknown-tag", ["C04"], B, "    return _load_registry.get(tag)(stream)",
     "    if tag == b'\\x1f':\n        import pickle\n        return pickle.loads(stream.read())\n    return _load_registry.get(tag)(stream)"),
    ("brine-negzero-normalised", ["C04", "C19"], B, "    stream.append(TAG_FLOAT + F8.pack(obj))",
     "    stream.append(TAG_FLOAT + F8.pack(obj + 0.0 if obj else 0.0))"),
    ("brine-bool-in-tuple-as-int", ["C04", "C19"], B, "    if obj:\n        stream.append(TAG_TRUE)",
     "    if obj:\n        stream.append(IMM_INTS[1] if len(stream) > 3 else TAG_TRUE)"),
    # ---- C19 / C05: channel
    ("channel-header-little-endian", ["C19"], CH, 'FRAME_HEADER = Struct("!LB")', 'FRAME_HEADER = Struct("<LB")'),
    ("channel-threshold-ge", ["C19"], CH, "len(data) > self.COMPRESSION_THRESHOLD", "len(data) >= self.COMPRESSION_THRESHOLD"),
    ("channel-threshold-4096", ["C19"], CH, "COMPRESSION_THRESHOLD = 3000", "COMPRESSION_THRESHOLD = 4096"),
    ("channel-flusher-crlf", ["C19"], CH, 'FLUSHER = BYTES_LITERAL("\\n")', 'FLUSHER = BYTES_LITERAL("\\r\\n")'),
    ("consts-reply-exception-swapped", ["C19"], CO, "MSG_REPLY = 2\nMSG_EXCEPTION = 3", "MSG_REPLY = 3\nMSG_EXCEPTION = 2"),
    ("consts-labels-swapped", ["C19"], CO, "LABEL_LOCAL_REF = 3\nLABEL_REMOTE_REF = 4", "LABEL_LOCAL_REF = 4\nLABEL_REMOTE_REF = 3"),
    ("consts-handler-renumbered", ["C19"], CO, "HANDLE_CALL = 7\nHANDLE_CALLATTR = 8", "HANDLE_CALL = 8\nHANDLE_CALLATTR = 7"),
]

MUTATIONS += [
    # ---- C12: Connection._send
    ("send-one-shot-no-recheck-after-release", ["C12"], P, "            finally:\n                self._sendlock.release()\n\n    def _box",
     "            finally:\n                self._sendlock.release()\n            break\n\n    def _box"),
    ("send-no-inner-recheck", ["C12"], P, "                if not self._send_queue:\n                    # Must `continue`",
     "                if False:\n                    # Must `continue`"),
    ("send-blocking-lock", ["C12"], P, "if not self._sendlock.acquire(False):", "if not self._sendlock.acquire():"),
    ("send-own-data-not-popped", ["C12"], P, "                data = self._send_queue.pop(0)\n                self._channel.send(data)",
     "                self._send_queue.pop(0)\n                self._channel.send(data)"),
    ("send-pop-last", ["C12"], P, "data = self._send_queue.pop(0)", "data = self._send_queue.pop()"),
    ("send-drain-under-lock", ["C12"], P,
     "        while self._send_queue:\n            if not self._sendlock.acquire(False):\n                # Another thread holds the lock. It will send the data after\n                # it's done with its current job. We can safely return.\n                return\n            try:",
     "        if not self._sendlock.acquire(False):\n            return\n        try:\n            while self._send_queue:\n                self._channel.send(self._send_queue.pop(0))\n        finally:\n            self._sendlock.release()\n        while False:\n            try:"),
    ("send-no-queue-direct", ["C12"], P, "        self._send_queue.append(data)\n        # It is crucial",
     "        if self._sendlock.acquire(False):\n            try:\n                self._channel.send(data)\n            finally:\n                self._sendlock.release()\n            return\n        self._send_queue.append(data)\n        # It is crucial"),
]

A = "rpyc/core/async_.py"
MUTATIONS += [
    # ---- C14 / C13: hand-off between receiver and waiters
    ("serve-no-notify", ["C14", "C13"], P, "            with self._recv_event:\n                self._recv_event.notify_all()\n", "            pass\n"),
    ("serve-notify-one", ["C14", "C13"], P, "self._recv_event.notify_all()", "self._recv_event.notify()"),
    ("serve-wait-ignores-lock-release", ["C14", "C13"], P, "return wait_for_lock and self._recv_event.wait(timeout.timeleft())",
     "return wait_for_lock and self._recv_event.wait(timeout.timeleft()) and self._recv_event.wait(timeout.timeleft())"),
    ("wait-fixed-1s-serve", ["C14", "C15"], A, "            self._conn.serve(self._ttl)", "            self._conn.serve(1)\n            self._conn.serve(0.5)"),
]

MUTATIONS += [
    # ---- C13 / C08: correlation of replies
    ("seq-counter-not-atomic", ["C13"], P, "        return next(self._seqcounter)",
     "        n = getattr(self, '_n', 0)\n        self._n = n + 1\n        return n"),
    ("callback-get-not-pop", ["C13", "C08"], P, "_callback = self._request_callbacks.pop(seq, None)",
     "_callback = self._request_callbacks.get(seq, None)"),
    ("asyncresult-ready-before-obj", ["C13"], A, "        self._is_exc = is_exc\n        self._obj = obj\n        self._is_ready = True",
     "        self._is_ready = True\n        self._is_exc = is_exc\n        self._obj = obj"),
    ("recvlock-released-after-dispatch", ["C13", "C01"], P,
     "        finally:\n            self._recvlock.release()\n            with self._recv_event:\n                self._recv_event.notify_all()\n        self._dispatch(data)\n        return True",
     "        except BaseException:\n            self._recvlock.release()\n            with self._recv_event:\n                self._recv_event.notify_all()\n            raise\n        try:\n            self._dispatch(data)\n        finally:\n            self._recvlock.release()\n            with self._recv_event:\n                self._recv_event.notify_all()\n        return True"),
    ("cond-wait-no-timeout", ["C13", "C15"], P, "return wait_for_lock and self._recv_event.wait(timeout.timeleft())",
     "return wait_for_lock and self._recv_event.wait()"),
    ("callback-registered-after-send", ["C13"], P,
     "        self._request_callbacks[seq] = callback\n        try:\n            self._send(consts.MSG_REQUEST, seq, (handler, self._box(args)))",
     "        try:\n            self._send(consts.MSG_REQUEST, seq, (handler, self._box(args)))\n            self._request_callbacks[seq] = callback"),
]

N = "rpyc/core/netref.py"
V = "rpyc/core/vinegar.py"
MUTATIONS += [
    # ---- C01: calls, boxing
    ("handle-call-drops-kwargs", ["C01"], P, "        return obj(*args, **dict(kwargs))", "        return obj(*args)"),
    ("box-tuple-not-recursive", ["C01", "C03"], P, "            return consts.LABEL_TUPLE, tuple(self._box(item) for item in obj)",
     "            return consts.LABEL_TUPLE, tuple((consts.LABEL_VALUE, item) if brine.dumpable(item) else self._box(list(item) if type(item) is tuple else item) for item in obj)"),
    ("unbox-tuple-as-list", ["C01", "C03"], P, "            return tuple(self._unbox(item) for item in self._resolve_local_refs(value))", "            return list(self._unbox(item) for item in self._resolve_local_refs(value))"),
    ("netref-call-drops-kwargs", ["C01"], N, "            kwargs = tuple(kwargs.items())\n            return syncreq(_self, consts.HANDLE_CALL, args, kwargs)",
     "            kwargs = ()\n            return syncreq(_self, consts.HANDLE_CALL, args, kwargs)"),
    ("netref-callattr-kwargs-values-only", ["C02"], N, "            kwargs = tuple(kwargs.items())\n            return syncreq(_self, consts.HANDLE_CALLATTR, name, args, kwargs)",
     "            kwargs = tuple(sorted(kwargs.items()))[:1]\n            return syncreq(_self, consts.HANDLE_CALLATTR, name, args, kwargs)"),
    ("dispatch-exception-runs-handler-twice", ["C01", "C08"], P, "            res = self._HANDLERS[handler](self, *args)\n        except:",
     "            try:\n                res = self._HANDLERS[handler](self, *args)\n            except KeyError:\n                res = self._HANDLERS[handler](self, *args)\n        except:"),
    ("vinegar-everything-generic", ["C01", "C09"], V, "    elif modname == exceptions_module.__name__:\n        cls = getattr(exceptions_module, clsname, None)",
     "    elif modname == exceptions_module.__name__ and clsname not in ('KeyError', 'IndexError'):\n        cls = getattr(exceptions_module, clsname, None)"),
    ("vinegar-args-first-only", ["C01", "C09"], V, "    exc.args = args\n", "    exc.args = args[:1]\n"),
]

MUTATIONS += [
    # ---- C03: by value / by reference / identity
    ("box-isinstance-tuple", ["C03"], P, "        if type(obj) is tuple:\n            return consts.LABEL_TUPLE",
     "        if isinstance(obj, tuple):\n            return consts.LABEL_TUPLE"),
    ("local-ref-returns-new-proxy", ["C03", "C01"], P, "        elif isinstance(obj, netref.BaseNetref) and obj.____conn__ is self:\n            return consts.LABEL_LOCAL_REF, obj.____id_pack__",
     "        elif False:\n            return consts.LABEL_LOCAL_REF, obj.____id_pack__"),
    ("proxy-cache-not-consulted", ["C03", "C10"], P, "            if id_pack in self._proxy_cache:", "            if False:"),
    ("simple-types-gain-list", ["C03", "C04"], B, "simple_types = frozenset([type(None), int,", "simple_types = frozenset([list, type(None), int,"),
    ("unbox-idpack-without-instance-id", ["C03"], P, "            id_pack = (str(value[0]), value[1], value[2])  # so value is a id_pack",
     "            id_pack = (str(value[0]), value[1], value[2] and 1)  # so value is a id_pack"),
]

MUTATIONS += [
    # ---- C09: vinegar
    ("vinegar-traceback-gate-ignored", ["C09"], V, "    if include_local_traceback:\n", "    if True:\n"),
    ("vinegar-version-gate-ignored", ["C09"], V, "    if include_local_version:\n", "    if True:\n"),
    ("vinegar-args-str-not-repr", ["C09"], V, "                    args.append(repr(a))", "                    args.append(str(a))"),
    ("vinegar-instantiate-inverted", ["C09"], V, "    if instantiate_custom_exceptions:\n        if modname in sys.modules:",
     "    if not instantiate_custom_exceptions:\n        if modname in sys.modules:"),
    ("vinegar-builtins-test-dropped", ["C09", "C07"], V, "    elif modname == exceptions_module.__name__:\n        cls = getattr(exceptions_module, clsname, None)",
     "    elif modname in sys.modules:\n        cls = getattr(sys.modules[modname], clsname, None)"),
    ("vinegar-new-to-call", ["C09", "C07"], V, "        exc = cls.__new__(cls)", "        exc = cls()"),
    ("vinegar-baseexception-test-dropped", ["C09", "C07"], V, "    if not isinstance(cls, type) or not issubclass(cls, BaseException):",
     "    if not isinstance(cls, type):"),
    ("vinegar-derived-loses-name", ["C09"], V, "    Derived.__name__ = cls.__name__\n", "    pass\n"),
    ("vinegar-private-attrs-copied", ["C09"], V, '        elif name.startswith("_") or name in ignored_attrs:', '        elif name.startswith("__") or name in ignored_attrs:'),
    ("vinegar-import-unconditional", ["C09", "C07"], V, "    if import_custom_exceptions and modname not in sys.modules:", "    if modname not in sys.modules:"),
    ("vinegar-attr-values-stringified", ["C09"], V, "            if not brine.dumpable(attrval):\n                attrval = repr(attrval)",
     "            if not isinstance(attrval, (int, str)):\n                attrval = repr(attrval)"),
]

SV = "rpyc/core/service.py"
HP = "rpyc/utils/helpers.py"
MUTATIONS += [
    # ---- C06: attribute policy
    ("config-default-not-copied", ["C06"], P, "        self._config = DEFAULT_CONFIG.copy()", "        self._config = DEFAULT_CONFIG"),
    ("config-callers-dict-used", ["C06"], P, "        self._config = DEFAULT_CONFIG.copy()\n        self._config.update(config)",
     "        for _k, _v in DEFAULT_CONFIG.items():\n            config.setdefault(_k, _v)\n        self._config = config"),
    ("public-rule-without-underscore-test", ["C06"], P, '        plain |= config["allow_public_attrs"] and not name.startswith("_")',
     '        plain |= config["allow_public_attrs"] and not name.startswith("__")'),
    ("twin-ignores-allow-exposed", ["C06"], P, "        has_exposed = prefix and hasattr(obj, prefix + name)",
     '        has_exposed = hasattr(obj, config["exposed_prefix"] + name)'),
    ("delattr-keyed-on-setattr", ["C06"], P, '"_rpyc_delattr", "allow_delattr", delattr)', '"_rpyc_delattr", "allow_setattr", delattr)'),
    ("name-type-check-dropped", ["C06"], P, '        elif type(name) is not str:\n            raise TypeError("name must be a string")',
     '        elif type(name) is not str:\n            name = str(name)'),
    ("cmp-bare-getattr", ["C06", "C07"], P, '            return self._access_attr(type(obj), op, (), "_rpyc_getattr", "allow_getattr", getattr)(obj, other)',
     "            return getattr(type(obj), op)(obj, other)"),
    ("ctxexit-bare-getattr", ["C06", "C07"], P, '        return self._handle_getattr(obj, "__exit__")(exc, typ, tb)', '        return getattr(obj, "__exit__")(exc, typ, tb)'),
    ("oldslicing-bare-getattr", ["C06", "C07"], P, "            getitem = self._handle_getattr(obj, attempt)", "            getitem = getattr(obj, attempt)"),
    ("slave-updates-default-config", ["C06"], SV, "        self._conn._config.update(dict(", "        import rpyc.core.protocol as _p\n        _p.DEFAULT_CONFIG.update(dict(allow_all_attrs=True))\n        self._conn._config.update(dict("),
    ("restricted-reads-check-wattrs", ["C06"], HP, "            if name not in attrs:\n                raise AttributeError(name)\n            return getattr(obj, name)",
     "            if name not in wattrs:\n                raise AttributeError(name)\n            return getattr(obj, name)"),
    ("safe-attrs-shared-and-grown", ["C06"], P, "        has_exposed = prefix and hasattr(obj, prefix + name)",
     '        has_exposed = prefix and hasattr(obj, prefix + name)\n        if has_exposed and config["allow_setattr"]:\n            config["safe_attrs"].add(name)'),
    ("exposed-prefix-match-anywhere", ["C06"], P, '        plain |= config["allow_exposed_attrs"] and name.startswith(prefix)', '        plain |= config["allow_exposed_attrs"] and prefix in name'),
    ("hook-lookup-on-instance", ["C06"], P, "        accessor = getattr(type(obj), overrider, None)", "        accessor = getattr(obj, overrider, None)"),
]

CL = "rpyc/utils/classic.py"
MUTATIONS += [
    # ---- C20: upload / download
    ("download-reads-chunk-minus-one-loses-last", ["C20"], CL, "                buf = rf.read(chunk_size)\n                if not buf:\n                    break\n                lf.write(buf)",
     "                buf = rf.read(chunk_size)\n                if len(buf) < chunk_size:\n                    break\n                lf.write(buf)"),
    ("upload-filter-inverted", ["C20"], CL, "    for fn in os.listdir(localpath):\n        if not filter or filter(fn):", "    for fn in os.listdir(localpath):\n        if not filter or not filter(fn):"),
    ("download-filter-files-only", ["C20"], CL, "    for fn in conn.modules.os.listdir(remotepath):\n        if not filter or filter(fn):",
     "    for fn in conn.modules.os.listdir(remotepath):\n        if not filter or filter(fn) or conn.modules.os.path.isdir(conn.modules.os.path.join(remotepath, fn)):"),
    ("upload-empty-dirs-not-created", ["C20"], CL, "    if not conn.modules.os.path.isdir(remotepath):\n        conn.modules.os.makedirs(remotepath)\n    for fn in os.listdir(localpath):",
     "    if os.listdir(localpath) and not conn.modules.os.path.isdir(remotepath):\n        conn.modules.os.makedirs(remotepath)\n    for fn in os.listdir(localpath):"),
    ("upload-text-mode-remote", ["C20"], CL, 'with conn.builtin.open(remotepath, "wb") as rf:', 'with conn.builtin.open(remotepath, "w", encoding="latin1", newline="\\n") as rf:'),
    ("download-wrong-join", ["C20"], CL, "            lfn = os.path.join(localpath, fn)\n            download(", "            lfn = os.path.join(localpath, fn.strip())\n            download("),
    ("upload-invalid-path-silent", ["C20"], CL, '        if not ignore_invalid:\n            raise ValueError("cannot upload %r" % (localpath,))', '        if not ignore_invalid and filter:\n            raise ValueError("cannot upload %r" % (localpath,))'),
]

MUTATIONS += [
    # ---- C08: exactly one response
    ("reply-sent-in-finally", ["C08"], P, "            self._send(consts.MSG_EXCEPTION, seq, self._box_exc(t, v, tb))\n        else:",
     "            self._send(consts.MSG_EXCEPTION, seq, self._box_exc(t, v, tb))\n            res = None\n        if True:"),
    ("exception-path-not-sending", ["C08"], P, "            if t is KeyboardInterrupt and self._config[\"propagate_KeyboardInterrupt_locally\"]:\n                raise\n            self._send(consts.MSG_EXCEPTION, seq, self._box_exc(t, v, tb))",
     "            if t is KeyboardInterrupt and self._config[\"propagate_KeyboardInterrupt_locally\"]:\n                raise\n            if t is not KeyError:\n                self._send(consts.MSG_EXCEPTION, seq, self._box_exc(t, v, tb))"),
    ("reply-seq-from-counter", ["C08", "C13"], P, "                self._send(consts.MSG_REPLY, seq, self._box(res))", "                self._send(consts.MSG_REPLY, seq if type(seq) is int and seq < 40 else 0, self._box(res))"),
    ("bare-except-to-exception", ["C08"], P, "        except:  # TODO: revist how to catch handle locally", "        except Exception:  # TODO: revist how to catch handle locally"),
    ("unbox-outside-try", ["C08", "C07"], P, "        try:\n            handler, args = raw_args\n            args = self._unbox(args)",
     "        handler, args = raw_args\n        args = self._unbox(args)\n        try:\n            pass"),
]

CO2 = "rpyc/lib/colls.py"
MUTATIONS += [
    # ---- C10: lifetimes
    ("decref-lt-to-le", ["C10"], CO2, "            if slot[1] < count:", "            if slot[1] <= count:"),
    ("netref-del-releases-one", ["C10"], N, "            asyncreq(self, consts.HANDLE_DEL, self.____refcount__)", "            asyncreq(self, consts.HANDLE_DEL, 1)"),
    ("unbox-no-refcount-bump", ["C10"], P, "                proxy.____refcount__ += 1  # if cached then remote incremented refcount, so sync refcount", "                pass"),
    ("add-not-counting-repeats", ["C10"], CO2, "            else:\n                slot[1] += 1\n            self._dict[key] = slot", "            self._dict[key] = slot"),
    ("cleanup-not-clearing-table", ["C10", "C11"], P, "        self._local_objects.clear()\n", "        pass\n"),
    ("proxy-cache-strong-refs", ["C10"], CO2, "        self._dict[key] = weakref.ref(value, remover)", "        self._dict[key] = (lambda v=value: v)"),
    ("handle-del-ignores-count", ["C10"], P, "        self._local_objects.decref(get_id_pack(obj), count)", "        self._local_objects.decref(get_id_pack(obj))"),
]

L = "rpyc/lib/__init__.py"
MUTATIONS += [
    # ---- C15: async results
    ("asyncresult-call-ignores-expiry", ["C15"], A, "        if self.expired:\n            return\n        self._is_exc = is_exc", "        self._is_exc = is_exc"),
    ("add-callback-after-ready-not-invoked", ["C15"], A, "        if self._is_ready:\n            func(self)\n        else:\n            self._callbacks.append(func)", "        self._callbacks.append(func)"),
    ("callbacks-reverse-order", ["C15"], A, "        for cb in self._callbacks:\n            cb(self)", "        for cb in reversed(self._callbacks):\n            cb(self)"),
    ("sync-request-ignores-config-timeout", ["C15"], P, '        timeout = self._config["sync_request_timeout"]\n        return self.async_request(handler, *args, timeout=timeout).value',
     '        timeout = 30\n        return self.async_request(handler, *args, timeout=timeout).value'),
    ("timed-not-setting-expiry", ["C15"], HP, "        res = self.proxy(*args, **kwargs)\n        res.set_expiry(self.timeout)\n        return res", "        res = self.proxy(*args, **kwargs)\n        return res"),
    ("timeout-expired-strict-gt", ["C15"], L, "        return self.finite and time.time() >= self.tmax", "        return self.finite and time.time() > self.tmax + 0.01"),
    ("ready-serves-when-expired", ["C15"], A, "        if self._ttl.expired():\n            return False\n        self._conn.poll_all()", "        self._conn.poll_all()"),
    ("value-caches-nothing-raises-once", ["C15"], A, "        if self._is_exc:\n            raise self._obj\n        else:\n            return self._obj",
     "        if self._is_exc:\n            self._is_exc = False\n            raise self._obj\n        else:\n            return self._obj"),
    ("expired-property-ignores-ready", ["C15"], A, "        return not self._is_ready and self._ttl.expired()", "        return self._ttl.expired()"),
]

MUTATIONS += [
    # ---- C11: endings
    ("closed-flag-after-hook", ["C11"], P, "        self._closed = True\n        self._channel.close()\n        self._local_root.on_disconnect(self)",
     "        self._channel.close()\n        self._local_root.on_disconnect(self)\n        self._closed = True"),
    ("cleanup-guard-inverted", ["C11"], P, "        if self._closed and not _anyway:\n            return", "        if not self._closed and not _anyway:\n            return"),
    ("serve-not-closing-on-eof", ["C11"], P, "        except EOFError:\n            self.close()\n            raise\n        finally:\n            self._recvlock.release()",
     "        except EOFError:\n            raise\n        finally:\n            self._recvlock.release()"),
    ("serve-all-no-finally-close", ["C11", "C17"], P, "        except EOFError:\n            pass\n        finally:\n            self.close()\n\n    def serve_threaded",
     "        except EOFError:\n            pass\n\n    def serve_threaded"),
    ("request-callbacks-not-cleared", ["C11"], P, "        self._request_callbacks.clear()\n", "        pass\n"),
    ("close-not-swallowing-eof", ["C11"], P, "        except EOFError:\n            pass\n        except Exception:\n            if not self._config[\"close_catchall\"]:",
     "        except ZeroDivisionError:\n            pass\n        except Exception:\n            if not self._config[\"close_catchall\"]:"),
    ("close-without-closed-guard", ["C11"], P, "        if self._closed:\n            return\n        try:\n            self._closed = True", "        try:\n            self._closed = True"),
    ("handle-close-cleanup-anyway", ["C11"], P, "    def _handle_close(self):  # request handler\n        self._cleanup()", "    def _handle_close(self):  # request handler\n        self._cleanup(_anyway=False)"),
]

MUTATIONS += [
    ("close-closed-flag-set-late", ["C11"], P, "        try:\n            self._closed = True\n            if self._config.get(\"before_closed\"):", "        try:\n            if self._config.get(\"before_closed\"):"),
    ("serve-notify-only-after-receive", ["C11", "C14"], P, "        finally:\n            self._recvlock.release()\n            with self._recv_event:\n                self._recv_event.notify_all()\n        try:\n            self._dispatch(data)",
     "        finally:\n            self._recvlock.release()\n        with self._recv_event:\n            self._recv_event.notify_all()\n        try:\n            self._dispatch(data)"),
]

ST = "rpyc/core/stream.py"
MUTATIONS += [
    # ---- C05: channel / streams
    ("stream-count-not-decremented-fully", ["C05"], ST, "            data.append(buf)\n            count -= len(buf)\n        return BYTES_LITERAL(\"\").join(data)\n\n    def write(self, data):\n        try:\n            while data:\n                count = self.sock.send",
     "            data.append(buf)\n            count -= max(len(buf), 2)\n        return BYTES_LITERAL(\"\").join(data)\n\n    def write(self, data):\n        try:\n            while data:\n                count = self.sock.send"),
    ("stream-timeout-not-retried", ["C05"], ST, "            except socket.timeout:\n                continue", "            except socket.timeout:\n                raise EOFError('timeout')"),
    ("stream-eof-returns-short", ["C05"], ST, "            if not buf:\n                self.close()\n                raise EOFError(\"connection closed by peer\")\n            data.append(buf)\n            count -= len(buf)\n        return BYTES_LITERAL(\"\").join(data)\n\n    def write(self, data):\n        try:\n            while data:\n                count = self.sock.send",
     "            if not buf:\n                break\n            data.append(buf)\n            count -= len(buf)\n        return BYTES_LITERAL(\"\").join(data)\n\n    def write(self, data):\n        try:\n            while data:\n                count = self.sock.send"),
    ("stream-write-wrong-slice", ["C05"], ST, "                count = self.sock.send(data[:self.MAX_IO_CHUNK])\n                data = data[count:]", "                count = self.sock.send(data[:self.MAX_IO_CHUNK])\n                data = data[self.MAX_IO_CHUNK:]"),
    ("channel-second-part-wrong-start", ["C05", "C19"], CH, "            self.stream.write(data[part1:])", "            self.stream.write(data[self.stream.MAX_IO_CHUNK:])"),
    ("channel-flusher-not-stripped", ["C05"], CH, "        data = self.stream.read(length + len(self.FLUSHER))[:-len(self.FLUSHER)]", "        data = self.stream.read(length + len(self.FLUSHER))"),
    ("channel-flusher-not-read", ["C05"], CH, "        data = self.stream.read(length + len(self.FLUSHER))[:-len(self.FLUSHER)]", "        data = self.stream.read(length)"),
    ("stream-no-close-before-raise", ["C05"], ST, "                self.close()\n                raise EOFError(ex)\n            if not buf:", "                raise EOFError(ex)\n            if not buf:"),
    ("pipe-write-error-not-closing", ["C05"], ST, "                written = os.write(self.outgoing.fileno(), chunk)\n                data = data[written:]\n        except EnvironmentError:\n            ex = sys.exc_info()[1]\n            self.close()",
     "                written = os.write(self.outgoing.fileno(), chunk)\n                data = data[written:]\n        except EnvironmentError:\n            ex = sys.exc_info()[1]"),
    ("pipe-read-assumes-full", ["C05"], ST, "                buf = os.read(self.incoming.fileno(), min(self.MAX_IO_CHUNK, count))\n                if not buf:\n                    raise EOFError(\"connection closed by peer\")\n                data.append(buf)\n                count -= len(buf)",
     "                buf = os.read(self.incoming.fileno(), min(self.MAX_IO_CHUNK, count))\n                if not buf:\n                    raise EOFError(\"connection closed by peer\")\n                data.append(buf)\n                count -= min(self.MAX_IO_CHUNK, count)"),
    ("channel-compress-flag-without-compression", ["C05", "C19"], CH, "            data = zlib.compress(data, self.COMPRESSION_LEVEL)", "            _z = zlib.compress(data, self.COMPRESSION_LEVEL)\n            data = _z if len(_z) < len(data) else data"),
    ("stream-eagain-not-retried", ["C05"], ST, "                if get_exc_errno(ex) in retry_errnos:\n                    # windows just has to be a bitch\n                    continue", "                if get_exc_errno(ex) == errno.EWOULDBLOCK + 1000:\n                    continue"),
]

RG = "rpyc/utils/registry.py"
MUTATIONS += [
    # ---- C18: registry
    ("registry-pruning-inverted", ["C18"], RG, "            if t < oldest:", "            if t > oldest:"),
    ("registry-query-not-uppercasing", ["C18"], RG, "        name = name.upper()\n        self.logger.debug(\"querying for %r\", name)", "        self.logger.debug(\"querying for %r\", name)"),
    ("registry-sorted-dropped", ["C18"], RG, "        all_servers = sorted(self.services[name].items(), key=lambda x: x[1])", "        all_servers = list(self.services[name].items())"),
    ("registry-is-new-test-removed", ["C18"], RG, "        if is_new:\n            try:", "        if True:\n            try:"),
    ("registry-unregister-wrong-host", ["C18"], RG, "            self._remove_service(name, (host, port))", "            for _h in set(a[0] for a in self.services.get(name, {})):\n                if name in self.services:\n                    self._remove_service(name, (_h, port))"),
    ("registry-load-unguarded", ["C18"], RG, "            try:\n                magic, cmd, args = brine.load(data)\n            except Exception:\n                continue", "            magic, cmd, args = brine.load(data)"),
    ("registry-magic-check-removed", ["C18"], RG, "            if magic != \"RPYC\":", "            if False:"),
    ("registry-prune-boundary-le", ["C18"], RG, "            if t < oldest:", "            if t <= oldest:"),
    ("registry-register-keeps-case", ["C18"], RG, "            self._add_service(name.upper(), (host, port))", "            self._add_service(name, (host, port))"),
    ("registry-keepalive-not-refreshing", ["C18"], RG, "        self.services[name][addrinfo] = time.time()", "        self.services[name].setdefault(addrinfo, time.time())"),
    ("registry-cmd-errors-unguarded", ["C18"], RG, "            try:\n                reply = cmdfunc(addrinfo[0], *args)\n            except Exception:\n                self.logger.exception('error executing function')\n            else:\n                self._send(brine.dump(reply), addrinfo)",
     "            reply = cmdfunc(addrinfo[0], *args)\n            self._send(brine.dump(reply), addrinfo)"),
]

MUTATIONS += [
    # ---- C07: hostile peer
    ("pickle-switch-dropped", ["C07"], P, '        if not self._config["allow_pickle"]:\n            raise ValueError("pickling is disabled")\n', "        pass\n"),
    ("local-objects-class-attribute", ["C07", "C16"], P, "        self._local_objects = RefCountingColl()\n", "        self._local_objects = globals().setdefault('_SHARED_OBJECTS', RefCountingColl())\n"),
    
    ("callattr-bare-getattr", ["C07", "C06"], P, "        obj = self._handle_getattr(obj, name)\n        return self._handle_call(obj, args, kwargs)", "        obj = getattr(obj, name)\n        return self._handle_call(obj, args, kwargs)"),
    ("class-factory-imports-module", ["C07"], N, "                _module = sys.modules.get(name_pack[:cursor])", "                _module = sys.modules.get(name_pack[:cursor])\n                if _module is None and cursor == name_pack.rfind('.'):\n                    try:\n                        _module = __import__(name_pack[:cursor], None, None, '*')\n                    except Exception:\n                        _module = None"),
    ("getattr-allows-dunder-class", ["C07", "C06"], P, "        plain |= config[\"allow_safe_attrs\"] and name in config[\"safe_attrs\"]", "        plain |= config[\"allow_safe_attrs\"] and (name in config[\"safe_attrs\"] or name == \"__class__\")"),
    ("setattr-default-on", ["C07"], P, "    allow_setattr=False,", "    allow_setattr=True,"),
    ("del-handler-removes-any-key", ["C07"], P, "        self._local_objects.decref(get_id_pack(obj), count)", "        self._local_objects.decref(get_id_pack(obj), count)\n        if count > 500:\n            self._local_root.__dict__.clear()"),
]

SRV = "rpyc/utils/server.py"
MUTATIONS += [
    # ---- C16 / C17: servers
    ("accept-loop-without-per-client-try", ["C16"], SRV, "            except AuthenticationError:\n                    self.logger.info(\"%s failed to authenticate, rejecting connection\", addrinfo)\n                    return",
     "            except ZeroDivisionError:\n                    return"),
    ("service-instance-shared", ["C16"], "rpyc/core/service.py", "        if isinstance(self, type):  # autovivify if accessed as class method\n            self = self()",
     "        if isinstance(self, type):  # autovivify if accessed as class method\n            self = self.__dict__.get('_the_one') or self()\n            type(self)._the_one = self"),
    ("pool-worker-dies-on-exception", ["C16"], SRV, "            except Exception:\n                # \"Caught exception in Worker thread\" message\n                self.logger.exception(\"failed to serve client, caught exception\")\n                # wait a bit so that we do not loop too fast in case of error\n                time.sleep(0.2)",
     "            except ZeroDivisionError:\n                time.sleep(0.2)"),
    ("threaded-serves-in-accept-thread", ["C16"], SRV, "    def _accept_method(self, sock):\n        spawn(self._authenticate_and_serve_client, sock)", "    def _accept_method(self, sock):\n        self._authenticate_and_serve_client(sock)"),
    ("server-close-not-iterating-clients", ["C17"], SRV, "        for c in set(self.clients):\n            try:\n                c.shutdown(socket.SHUT_RDWR)\n            except Exception:\n                pass\n            c.close()\n        self.clients.clear()", "        self.clients.clear()"),
    ("client-socket-not-discarded", ["C17"], SRV, "            closing(sock)\n            self.clients.discard(sock)", "            closing(sock)"),
    ("server-closed-flag-removed", ["C17"], SRV, "        if self._closed:\n            return\n        self._closed = True\n        self.active = False", "        self._closed = True\n        self.active = False"),
    ("oneshot-not-closing", ["C17"], SRV, "        try:\n            self._authenticate_and_serve_client(sock)\n        finally:\n            self.close()", "        self._authenticate_and_serve_client(sock)"),
    ("forking-parent-keeps-socket", ["C17"], SRV, "            # parent\n            sock.close()\n            self.clients.discard(sock)", "            # parent\n            pass"),
    ("pool-drop-connection-keeps-entry", ["C17"], SRV, "            conn = self.fd_to_conn[fd]\n            del self.fd_to_conn[fd]", "            conn = self.fd_to_conn[fd]"),
]

MUTATIONS += [
    # ---- C02: proxies
    ("get-methods-ignores-bases", ["C02"], L, "        mros = reversed(type(obj).__mro__)\n    for basecls in mros:", "        mros = [type(obj)]\n    for basecls in mros:"),
    ("handle-buffiter-off-by-one", ["C02"], P, "        return tuple(itertools.islice(obj, count))", "        return tuple(itertools.islice(obj, max(count - 1, 1)))"),
    ("buffiter-stops-on-short-chunk", ["C02"], HP, "        if not items:\n            break\n        for elem in items:\n            yield elem", "        for elem in items:\n            yield elem\n        if len(items) < count:\n            break"),
    ("buffiter-drops-last-of-chunk", ["C02"], HP, "        for elem in items:\n            yield elem", "        for elem in items[:max(1, len(items) - (len(items) > 3))]:\n            yield elem"),
    ("handle-cmp-op-on-instance", ["C02"], P, '            return self._access_attr(type(obj), op, (), "_rpyc_getattr", "allow_getattr", getattr)(obj, other)',
     '            return self._access_attr(obj, op, (), "_rpyc_getattr", "allow_getattr", getattr)(other)'),
    ("handle-setattr-swapped", ["C02"], P, '        return self._access_attr(obj, name, (value,), "_rpyc_setattr", "allow_setattr", setattr)', '        return self._access_attr(obj, name, (name,), "_rpyc_setattr", "allow_setattr", setattr)'),
    ("netref-ne-forwards-eq", ["C02"], N, "        return syncreq(self, consts.HANDLE_CMP, other, '__ne__')", "        return syncreq(self, consts.HANDLE_CMP, other, '__eq__')"),
    ("netref-delattr-as-setattr-none", ["C02"], N, "            syncreq(self, consts.HANDLE_DELATTR, name)", "            syncreq(self, consts.HANDLE_SETATTR, name, None)"),
    ("handle-dir-sorted-truncated", ["C02"], P, "        return tuple(dir(obj))", "        return tuple(n for n in dir(obj) if not n.startswith('__r'))"),
    ("handle-str-uses-repr", ["C02"], P, "    def _handle_str(self, obj):  # request handler\n        return str(obj)", "    def _handle_str(self, obj):  # request handler\n        return repr(obj)"),
    ("handle-hash-constant", ["C02"], P, "        return hash(obj)", "        return hash(obj) & 0xFFFF"),
    ("callattr-args-reversed", ["C02"], P, "        obj = self._handle_getattr(obj, name)\n        return self._handle_call(obj, args, kwargs)", "        obj = self._handle_getattr(obj, name)\n        return self._handle_call(obj, args[::-1] if len(args) == 2 and name == 'insert' else args, kwargs)"),
]
