#!/usr/bin/env python3
"""Sensitivity runs: apply a deliberate breakage to a scratch worktree of /repo (never to /repo itself), run the
named checks against it through VERIF_REPO, report detected / missed, revert.

usage: tools/sens.py [--tier quick] [--only NAME-substring] [--prop C04] [--patch FILE --checks C04,C19]
Mutations live in tools/mutations.py as (name, checks, file, old, new).
"""
import argparse
import os
import subprocess
import sys
import time

HOME = os.path.dirname(os.path.dirname(os.path.abspath(__file__)))
SCRATCH = os.environ.get("SENS_SCRATCH", "/tmp/wt/SENS")


def sh(cmd, **kw):
    return subprocess.run(cmd, shell=True, stdout=subprocess.PIPE, stderr=subprocess.STDOUT, text=True, **kw)


def ensure_scratch():
    if not os.path.isdir(SCRATCH):
        r = sh("git -C /repo worktree add -q --detach %s HEAD" % SCRATCH)
        if r.returncode:
            sys.exit(r.stdout)
    sh("git -C %s reset -q --hard HEAD; git -C %s checkout -q --detach $(git -C /repo rev-parse HEAD)" % (SCRATCH, SCRATCH))
    # mirror uncommitted edits of /repo (normally none)
    d = sh("git -C /repo diff").stdout
    if d.strip():
        subprocess.run("git -C %s apply" % SCRATCH, shell=True, input=d, text=True)


def run_check(pid, tier, seed="1", scale=None):
    env = dict(os.environ, VERIF_REPO=SCRATCH, VERIF_SEED=seed)
    if scale:
        env["VERIF_SCALE"] = scale
    t0 = time.time()
    r = sh("cd %s && ./check %s --tier %s" % (HOME, pid, tier), env=env)
    viol = [ln for ln in r.stdout.splitlines() if ln.startswith("VIOLATION")]
    return r.returncode, viol, time.time() - t0, r.stdout


def main():
    ap = argparse.ArgumentParser()
    ap.add_argument("--tier", default="quick")
    ap.add_argument("--only")
    ap.add_argument("--prop")
    ap.add_argument("--patch")
    ap.add_argument("--checks")
    ap.add_argument("--scale")
    ap.add_argument("-v", action="store_true")
    a = ap.parse_args()
    ensure_scratch()
    results = []
    if a.patch:
        muts = [(os.path.basename(os.path.dirname(os.path.abspath(a.patch))) or a.patch, a.checks.split(","), None, a.patch, None)]
    else:
        sys.path.insert(0, os.path.join(HOME, "tools"))
        from mutations import MUTATIONS
        muts = MUTATIONS
    for name, checks, path, old, new in muts:
        if a.only and a.only not in name:
            continue
        if a.prop and a.prop not in checks:
            continue
        if path is None:
            r = sh("git -C %s apply %s" % (SCRATCH, os.path.abspath(old)))
            if sh("git -C %s diff --quiet" % SCRATCH).returncode == 0:
                print("%-45s PATCH DID NOT APPLY\n%s" % (name, r.stdout))
                continue
        else:
            full = os.path.join(SCRATCH, path)
            src = open(full).read()
            if src.count(old) != 1:
                print("%-45s MUTATION DOES NOT APPLY (%d matches)" % (name, src.count(old)))
                continue
            open(full, "w").write(src.replace(old, new))
        try:
            for pid in checks:
                if a.prop and pid != a.prop:
                    continue
                rc, viol, dt, out = run_check(pid, a.tier, scale=a.scale)
                status = "DETECTED" if rc == 1 and viol else ("HARNESS-ERR" if rc == 2 else "missed")
                sig = viol[0].split("signature=")[-1] if viol else ""
                print("%-45s %s %-11s %5.1fs %s" % (name, pid, status, dt, sig))
                if a.v or rc == 2:
                    print(out[-3000:])
                results.append((name, pid, status))
        finally:
            sh("git -C %s reset -q --hard HEAD" % SCRATCH)
    missed = [r for r in results if r[2] != "DETECTED"]
    print("%d runs, %d not detected" % (len(results), len(missed)))


if __name__ == "__main__":
    import signal
    signal.signal(signal.SIGPIPE, signal.SIG_DFL)
    main()
