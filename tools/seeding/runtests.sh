#!/bin/sh
# usage: runtests.sh <worktree-dir> [pytest args...]
# Runs the repository's test suite for the rpyc tree in <worktree-dir> inside a private network namespace
# (so fixed ports used by the tests never collide with other runs) and reports how many of the 57
# baseline tests pass.
WT="$1"; shift
OUT="$(mktemp /tmp/wt/junit.XXXXXX.xml)"
unshare -n sh -c "ip link set lo up; ip route add default dev lo 2>/dev/null; cd '$WT' && PYTHONDONTWRITEBYTECODE=1 timeout 1500 /venv/bin/python -m pytest -ra -q -p no:cacheprovider --timeout=900 --continue-on-collection-errors --junitxml='$OUT' $* 2>&1 | tail -15"
/venv/bin/python - "$OUT" <<'PY'
import sys, json, xml.etree.ElementTree as ET
base = set(json.load(open('/root/.vp/BASELINE.json'))['stable_pass'])
ok = set()
for tc in ET.parse(sys.argv[1]).getroot().iter('testcase'):
    name = "%s::%s" % (tc.get('classname'), tc.get('name'))
    if not any(ch.tag in ('failure', 'error', 'skipped') for ch in tc):
        ok.add(name)
missing = sorted(base - ok)
print("BASELINE: %d of %d baseline tests pass" % (len(base & ok), len(base)))
for m in missing:
    print("  NOT PASSING:", m)
PY
rm -f "$OUT"
