#!/bin/sh
# Offline setup: make sure hypothesis is importable by /venv's python; atheris (thorough tier of C04/C07) goes to .deps
HERE="$(cd "$(dirname "$0")" && pwd)"
export PIP_NO_INDEX=1
/venv/bin/python -c "import hypothesis" 2>/dev/null || \
  /venv/bin/pip install --no-index --find-links /opt/veriftools/wheels hypothesis
mkdir -p "$HERE/.deps"
PYTHONPATH="$HERE/.deps" /venv/bin/python -c "import atheris" 2>/dev/null || \
  /venv/bin/pip install -q --no-index --find-links /opt/veriftools/wheels --target "$HERE/.deps" atheris || \
  echo "atheris unavailable: thorough-tier fuzz campaigns will be skipped (reported in evidence)"
/venv/bin/python -c "import hypothesis, sys; print('hypothesis', hypothesis.__version__, 'python', sys.version.split()[0])"
/venv/bin/python "$HERE/vlib/refcodec.py"
